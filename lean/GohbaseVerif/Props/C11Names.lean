import GohbaseVerif.Props.C16
import GohbaseVerif.Gen.Exits
/-!
# C11 — meta row keys accepted as region names never crash the name comparison

`infoFromCell` (region/info.go, fix 7f9c1ed) refuses a meta row whose key does not have the two
commas of `table,startkey,id`: the first and the last comma must be different positions.  This file
shows that this check is exactly what `region.Compare` needs: every name that passes it is of the
form `mkName t k s` with comma-free `t` and `s`, so by `compare_no_fault_wf` (C16) comparing two
accepted names never panics — whatever else the bytes are.
-/
namespace GV.RegionName
open GV

/-- the check of `infoFromCell` on the row key: at least two commas -/
def acceptedName (n : Bytes) : Bool := decide (2 ≤ n.count comma)

theorem exists_first_comma : ∀ (n : Bytes), comma ∈ n → ∃ t r, n = t ++ comma :: r ∧ comma ∉ t
  | [], h => by simp at h
  | x :: xs, h => by
    by_cases hx : x = comma
    · exact ⟨[], xs, by simp [hx], by simp⟩
    · have h' : comma ∈ xs := by
        rcases List.mem_cons.mp h with h | h
        · exact absurd h.symm hx
        · exact h
      obtain ⟨t, r, e, ht⟩ := exists_first_comma xs h'
      refine ⟨x :: t, r, by simp [e], ?_⟩
      intro hm
      rcases List.mem_cons.mp hm with h1 | h1
      · exact hx h1.symm
      · exact ht h1

theorem exists_last_comma : ∀ (n : Bytes), comma ∈ n → ∃ k s, n = k ++ comma :: s ∧ comma ∉ s
  | [], h => by simp at h
  | x :: xs, h => by
    by_cases hin : comma ∈ xs
    · obtain ⟨k, s, e, hs⟩ := exists_last_comma xs hin
      exact ⟨x :: k, s, by simp [e], hs⟩
    · have hx : x = comma := by
        rcases List.mem_cons.mp h with h | h
        · exact h.symm
        · exact absurd h hin
      exact ⟨[], xs, by simp [hx], hin⟩

/-- Every accepted name is `table,startkey,id` with a comma-free table and id. -/
theorem accepted_is_mkName (n : Bytes) (h : acceptedName n = true) :
    ∃ t k s, n = mkName t k s ∧ comma ∉ t ∧ comma ∉ s := by
  have h2 : 2 ≤ n.count comma := by simpa [acceptedName] using h
  have hmem : comma ∈ n := List.count_pos_iff.mp (by omega)
  obtain ⟨t, r, e, ht⟩ := exists_first_comma n hmem
  have hc : n.count comma = 1 + r.count comma := by
    rw [e, List.count_append, List.count_cons_self, List.count_eq_zero.mpr ht]; omega
  have hr : comma ∈ r := List.count_pos_iff.mp (by omega)
  obtain ⟨k, s, e2, hs⟩ := exists_last_comma r hr
  exact ⟨t, k, s, by rw [e, e2]; rfl, ht, hs⟩

/-- Comparing two names that passed `infoFromCell`'s check never panics. -/
theorem accepted_names_never_fault (a b : Bytes) (ha : acceptedName a = true) (hb : acceptedName b = true) :
    (compareName a b).isFault = false := by
  obtain ⟨t1, k1, s1, e1, h1, h3⟩ := accepted_is_mkName a ha
  obtain ⟨t2, k2, s2, e2, h2, h4⟩ := accepted_is_mkName b hb
  rw [e1, e2]
  exact compare_no_fault_wf t1 k1 s1 t2 k2 s2 h1 h2 h3 h4

/-- Regenerated from region/info.go: with `i`, `j` the positions of the first and the last comma,
`infoFromCell` refuses a row key whose first comma is missing or is also its last one — the keys
with fewer than two commas (`acceptedName` false) — and (fix a867439) one whose id, the part after
the last comma, does not start with a digit: the location cache's search keys end in `,:` and rely
on every id sorting below `:`. -/
theorem meta_row_key_checked_in_source :
    GV.Gen.Exits.metaRowKeyCheck
      = "i < 0 || j == i || j+1 == len(cell.Row) || cell.Row[j+1] < '0' || cell.Row[j+1] > '9'" := by decide

/-- … and the check is needed: a name with one comma panics against a good one. -/
example : (compareName [122, 122, 44, 97] [122, 122, 44, 97, 44, 49]).isFault = true := by decide  -- "zz,a" vs "zz,a,1"
example : acceptedName [116, 44, 97, 44, 49] = true := by decide   -- "t,a,1"
example : acceptedName [122, 122, 44, 97] = false := by decide     -- "zz,a"

end GV.RegionName
