import GohbaseVerif.Lemmas.Frame
import GohbaseVerif.Lemmas.ToProto
/-!
# C05 — Bytes written to the server encode exactly the requested operation

Property theorems only (helpers live in `Lemmas/`). The models are `Model/Frame.lean`
(`sendHello`, `marshalProto`, `registerRPC`, the `Write` units of `send`) and
`Model/ToProto.lean` (`Get/Mutate/CheckAndPut/Scan.ToProto`, `multi.toProto`); the
correspondence run ties them to the Go code through a real region client writing into an
in-memory `net.Conn`.

The protobuf byte encoding is trusted and opaque: theorems that speak about structured
headers/requests take the library's contract `PBCodec.Lawful` (`Unmarshal ∘ Marshal = id`) as
a hypothesis. Size hypotheses (`< 2^32`, `< 2^64`) are the ones the wire format itself imposes.
-/
namespace GV.Frame
open GV

/-! ## Framing -/

/-- `protowire` varints round-trip for every `uint64`, whatever follows. -/
theorem varint_roundtrip (n : Nat) (rest : Bytes) (h : n < 2 ^ 64) :
    varintDec (varintEnc n ++ rest) = .ok (n, rest) :=
  varintDec_enc n rest h

/-- …and never take more than 10 bytes. -/
theorem varint_le_10 (n : Nat) : (varintEnc n).length ≤ 10 := by
  exact varintEncAux_length_le 10 _

example : varintDec (varintEnc 300 ++ [7]) = .ok (300, [7]) := by decide
example : varintEnc 300 = [172, 2] := by decide

/-- A server that reads one frame off the stream gets back exactly the header payload, the
request payload and the cellblock bytes the client framed, and is left at the first byte after
the frame — for any payloads and any following bytes. -/
theorem frame_parse (h r cbs rest : Bytes) (hlen : bodyLen h r cbs < 2 ^ 32) :
    parseFrame (marshal h r cbs ++ rest) = .ok (h, r, cbs, rest) :=
  parseFrame_marshal h r cbs rest hlen

example : parseFrame (marshal [1, 2] [3] [9, 9] ++ [5]) = .ok ([1, 2], [3], [9, 9], [5]) :=
  frame_parse _ _ _ _ (by decide)

/-- The 4-byte length prefix equals the number of bytes that follow it in the frame. -/
theorem prefix_eq_rest_len (h r cbs : Bytes) (hlen : bodyLen h r cbs < 2 ^ 32) :
    beNat ((marshal h r cbs).take 4) = ((marshal h r cbs).drop 4).length :=
  marshal_prefix h r cbs hlen

example : bodyLen [1, 2] [3] [9, 9] = 7 := by decide

/-- Structured form of `frame_parse`, with the protobuf contract as a hypothesis: the server
recovers the call id, method name, priority, the request structure and the cellblock. -/
theorem frame_parse_msg {ρ} (ch : PBCodec ReqHeader) (cr : PBCodec ρ) (hch : ch.Lawful)
    (hcr : cr.Lawful) (callId : Nat) (method : Bytes) (priority : Nat) (req : ρ)
    (cbs rest : Bytes)
    (hlen : bodyLen (ch.marshal (mkHeader callId method priority cbs.length)) (cr.marshal req) cbs
      < 2 ^ 32) :
    parseMsg ch cr (marshalMsg ch cr callId method priority req cbs ++ rest)
      = .ok (mkHeader callId method priority cbs.length, req, cbs, rest) :=
  parseMsg_of ch cr _ _ _ _ _ _ _ (parseFrame_marshal _ _ _ _ hlen) (hch _) (hcr _)

/-- The header's `CellBlockMeta` is present iff the frame has trailing cellblock bytes, and
its length field is their number (so a server takes exactly the cellblock the client sent). -/
theorem meta_len_eq_cellblock_len (callId : Nat) (method : Bytes) (priority : Nat) (cbs : Bytes) :
    let hd := mkHeader callId method priority cbs.length
    metaOk hd cbs = true ∧ (hd.cellBlockMeta.isSome ↔ 0 < cbs.length) ∧
      (∀ n, hd.cellBlockMeta = some n → n = cbs.length) := by
  simp only [mkHeader, metaOk]
  by_cases h : 0 < cbs.length
  · simp [h]
  · have h0 : cbs.length = 0 := by omega
    simp [h0]

example : (mkHeader 7 [71] 0 3).cellBlockMeta = some 3 ∧ (mkHeader 7 [71] 0 0).cellBlockMeta = none :=
  by decide

/-- The stream is self-delimiting: preamble and connection header first, then any number of
frames, each found again by the reader, in order. -/
theorem stream_parse (p : Bytes) (frames : List RawFrame) (hp : p.length < 2 ^ 32)
    (hb : ∀ f ∈ frames, f.bodyLen < 2 ^ 32) :
    parseStream (hello p ++ (frames.map RawFrame.bytes).flatten) = .ok (p, frames) :=
  parseStream_hello_frames p frames hp hb

example : parseStream (hello [1] ++ ([⟨[1], [2], []⟩, ⟨[3], [], [4, 4]⟩].map RawFrame.bytes).flatten)
    = .ok ([1], [⟨[1], [2], []⟩, ⟨[3], [], [4, 4]⟩]) :=
  stream_parse _ _ (by decide) (by decide)

/-! ## Call ids -/

/-- The ids handed out on one connection (atomic increment of a `uint32` that starts at 0) are
pairwise different as long as fewer than 2^32 requests were registered; the first one is 1. -/
theorem ids_unique (n : Nat) (h : n < 2 ^ 32) : (allocIds 0 n).Nodup :=
  allocIds_nodup 0 n (by decide) (by omega)

theorem first_id : allocIds 0 1 = [1] := by decide

example : allocIds 0 3 = [1, 2, 3] := by decide

/-- After 2^32 registrations the counter wraps: the bound in `ids_unique` is sharp (the id
handed out after the counter reached 2^32 − 1 is 0, the one after that 1 again). -/
theorem ids_wrap : allocIds (2 ^ 32 - 1) 2 = [0, 1] := by simp [allocIds, nextId]

/-- The priority a server reads from the header (absent = 0, NORMAL) is the call's priority. -/
theorem priority_fidelity (callId : Nat) (method : Bytes) (priority cbLen : Nat) :
    (mkHeader callId method priority cbLen).priority.getD 0 = priority ∧
      (mkHeader callId method priority cbLen).callId = callId ∧
      (mkHeader callId method priority cbLen).methodName = method := by
  simp only [mkHeader]
  by_cases h : 0 < priority
  · simp [h]
  · have : priority = 0 := by omega
    simp [this]

/-! ## Several goroutines on one connection -/

/-- Each request is emitted as one atomic block of `Write` units — a single `Write` (plain
frame), a single `writev` (`*net.TCPConn`), or the units of `net.Buffers.WriteTo` on any other
`net.Conn` *under the writer mutex* (`writeM`, the current code). Then for every interleaving of
any number of senders the server reads the connection header and then whole frames: a
permutation of everything sent, each sender's own order kept. -/
theorem atomic_units_parse (k : ConnKind) (p : Bytes) (senders : List (List SendReq))
    (hp : p.length < 2 ^ 32) (hb : ∀ s ∈ senders, ∀ q ∈ s, q.raw.bodyLen < 2 ^ 32)
    (s : List (List Bytes))
    (hs : s ∈ interleavings (senders.map (List.map (SendReq.units k)))) :
    ∃ order, order ∈ interleavings senders ∧ order.Perm senders.flatten ∧
      (∀ a ∈ senders, a.Sublist order) ∧
      parseStream (hello p ++ s.flatten.flatten) = .ok (p, order.map SendReq.raw) :=
  atomic_blocks_parse k p senders hp hb s hs

example : [([⟨[1], [2], some [[9]]⟩] : List SendReq).map (SendReq.units .other), [(⟨[3], [4], none⟩ : SendReq).units .other]]
    = [[[[0, 0, 0, 5, 1, 1, 1, 2], [9]]], [[[0, 0, 0, 4, 1, 3, 1, 4]]]] := by decide

/-- Witness senders: `wA` carries a cellblock (two `Write`s on a non-TCP connection), `wB` is a
plain frame. -/
def wA : SendReq := ⟨[1], [2], some [[0, 0, 0, 4, 1, 5, 1, 6]]⟩
def wB : SendReq := ⟨[3], [4], none⟩
/-- `wB`'s frame lands between the two writes of `wA`'s frame. -/
def wS : List Bytes := [marshalProto [1] [2] 8, marshalProto [3] [4] 0, [0, 0, 0, 4, 1, 5, 1, 6]]

/-- Without mutual exclusion the units of a frame written as ≥ 2 `Write`s can be separated by
another sender's frame, and then the server reads something else than what was sent — here
silently: `wB`'s request is swallowed as `wA`'s cells and a request nobody sent is executed.
This is why the writer mutex matters on connections that are not a `*net.TCPConn`. -/
theorem split_units_break :
    wS ∈ interleavings [wA.units .other, wB.units .other] ∧
    wA.raw.bodyLen < 2 ^ 32 ∧ wB.raw.bodyLen < 2 ^ 32 ∧
    ∃ fs, parseFrames wS.flatten = .ok fs ∧ ¬ fs.Perm [wA.raw, wB.raw] := by
  refine ⟨?_, by decide, by decide, [⟨[1], [2], [0, 0, 0, 4, 1, 3, 1, 4]⟩, ⟨[5], [6], []⟩], by decide, ?_⟩
  · simp [interleavings, interleave2, wS, SendReq.units, frameUnits, sendUnits, wA, wB]
  · intro hp
    have hm : (⟨[5], [6], []⟩ : RawFrame) ∈ [wA.raw, wB.raw] :=
      hp.mem_iff.mp (List.mem_cons_of_mem _ (List.mem_singleton.mpr rfl))
    revert hm
    decide

/-- A second interleaving of the same kind that leaves the stream unparsable. -/
theorem split_units_unparsable :
    [marshalProto [1] [2] 3, marshalProto [3] [4] 0, [9, 9, 9]]
        ∈ interleavings [(⟨[1], [2], some [[9, 9, 9]]⟩ : SendReq).units .other,
                         (⟨[3], [4], none⟩ : SendReq).units .other] ∧
    parseFrames [marshalProto [1] [2] 3, marshalProto [3] [4] 0, [9, 9, 9]].flatten
      = .err "frame-truncated-body" := by
  refine ⟨?_, by decide⟩
  simp [interleavings, interleave2, SendReq.units, frameUnits, sendUnits]

end GV.Frame

namespace GV.ToProto
open GV

/-! ## Request fidelity: decoding what `ToProto` built gives back the operation -/

/-- Get, every option combination: the server reads back row, families and qualifiers (in the
order `ord` the map happened to be ranged over), filter, time range, versions, limits, cache
blocks, consistency, existence-only and the region name. -/
theorem get_fidelity (g : GetCall) (ord : Families) (h : g.q.consistency ≠ .invalid) :
    ∃ r, getToProto g ord = .ok r ∧ Spec.decodeOp (.get r) = .get (Spec.getIntent g ord) := by
  obtain ⟨r, h1, h2⟩ := get_fidelity' g ord h
  exact ⟨r, h1, by simp only [Spec.decodeOp, h2]⟩

/-- A consistency value outside the three constants makes `ToProto` panic (in the goroutine that
sends the request): the only input excluded from `get_fidelity`/`scan_fidelity`. -/
theorem get_invalid_consistency_faults (g : GetCall) (ord : Families)
    (h : g.q.consistency = .invalid) : (getToProto g ord).isFault = true :=
  get_invalid_faults g ord h

def exGet : GetCall :=
  { key := [114], region := [82], existsOnly := true
    q := { families := [([102], [[113]])], filter := some ⟨[70], [1]⟩, fromTs := 3, toTs := 9
           maxVersions := 5, storeLimit := 10, storeOffset := 2, priority := 200
           cacheBlocks := false, consistency := .timeline } }

example : ∃ r, getToProto exGet exGet.q.families = .ok r ∧ r.get.maxVersions = some 5 ∧
    r.get.cacheBlocks = some false ∧ r.get.consistency = some .timeline :=
  ⟨_, rfl, rfl, rfl, rfl⟩

/-- Mutate (Put / Append / Increment / Delete, every delete kind), protobuf form: row, type,
durability, timestamp, TTL and, family by family, exactly the cells the value map stands for. -/
theorem mutate_fidelity (m : MutateCall) (vals : Values) (h : m.durability < 5) :
    ∃ r, mutateToProto m vals = .ok r ∧
      Spec.decodeOp (.mutate r) = .mutate (Spec.mutateIntent m vals) := by
  obtain ⟨r, h1, h2⟩ := mutate_fidelity' m vals h
  exact ⟨r, h1, by simp only [Spec.decodeOp, h2]⟩

/-- Mutate, cellblock form (what `send` and `multi` use): the same header fields, the
associated cell count, and the cellblock buffer appended iff it is non-empty. -/
theorem mutate_cellblock_fidelity (m : MutateCall) (cb : Bytes) (count : Nat) (cbs : List Bytes)
    (h : m.durability < 5) :
    ∃ r, mutateSerialize m cb count cbs
        = .ok (r, (if 0 < cb.length then cbs ++ [cb] else cbs), cb.length) ∧
      Spec.decodeOp (.mutate r) = .mutate (Spec.mutateIntentCB m count) := by
  obtain ⟨r, h1, h2⟩ := mutate_cellblock_fidelity' m cb count cbs h
  exact ⟨r, h1, by simp only [Spec.decodeOp, h2]⟩

def exDel : MutateCall :=
  { key := [114], region := [82], mutType := .delete
    values := [([102], none), ([103], some [([113], [])])]
    ttl := [0, 0, 0, 0, 0, 0, 3, 232], timestamp := 77, durability := 3, deleteOneVersion := true }

example : (Spec.mutateIntent exDel exDel.values).cells =
    [([102], [⟨[], [], some 77, .deleteFamilyVersion⟩]), ([103], [⟨[113], [], some 77, .deleteOne⟩])] := by
  decide

/-- CheckAndPut: the put as above plus the condition (row, family, qualifier, EQUAL, comparator). -/
theorem cas_fidelity (c : CasCall) (vals : Values) (h : c.put.durability < 5) :
    ∃ r, casToProto c vals = .ok r ∧ Spec.decodeOp (.mutate r) = .mutate (Spec.casIntent c vals) := by
  obtain ⟨r, h1, h2⟩ := cas_fidelity' c vals h
  exact ⟨r, h1, by simp only [Spec.decodeOp, h2]⟩

/-- Scan, every option combination: an opening request carries bounds, direction, families,
filter, time range, versions, limits, attributes, result size; a request with a scanner id
carries only that id (no `Scan` message); both carry number of rows, close, renew, metrics. -/
theorem scan_fidelity (s : ScanCall) (ord : Families)
    (h : s.scannerID = noScannerID → s.q.consistency ≠ .invalid) :
    ∃ r, scanToProto s ord = .ok r ∧ Spec.decodeOp (.scan r) = .scan (Spec.scanIntent s ord) := by
  by_cases hid : s.scannerID = noScannerID
  · obtain ⟨r, h1, h2⟩ := scan_fidelity_open s ord hid (h hid)
    exact ⟨r, h1, by simp only [Spec.decodeOp, h2]⟩
  · obtain ⟨r, h1, h2⟩ := scan_fidelity_next s ord hid
    exact ⟨r, h1, by simp only [Spec.decodeOp, h2]⟩

def exScan : ScanCall :=
  { region := [82], startRow := [97], stopRow := [122], scannerID := noScannerID
    maxResultSize := 2097152, numberOfRows := 100, reversed := true, attrs := [([97], [1])]
    trackScanMetrics := true, closeScanner := false, allowPartialResults := true, renewalScan := false
    q := { families := [], filter := none, fromTs := 0, toTs := maxTimestamp, maxVersions := 1
           storeLimit := defaultStoreLimit, storeOffset := 0, priority := 0, cacheBlocks := true
           consistency := .default } }

example : ∃ r sc, scanToProto exScan [] = .ok r ∧ r.scan = some sc ∧ sc.reversed = some true ∧
    sc.maxVersions = none ∧ sc.storeLimit = none ∧ sc.cacheBlocks = none ∧ r.scannerId = none :=
  ⟨_, _, rfl, rfl, rfl, rfl, rfl, rfl, rfl⟩

example : ∃ r, scanToProto { exScan with scannerID := 7 } [] = .ok r ∧ r.scan = none ∧
    r.scannerId = some 7 := ⟨_, rfl, rfl, rfl⟩

/-- `multi.toProto`, for every order `π` in which Go may range over the per-region map: a
server that walks the region actions in request order and hands each action the cells its
payload announces (`need`) gets, per region of `π`, the live calls of that region — batch order
kept (indices strictly increasing), index = position + 1, each with its own cells (so the
cellblock stream is in region-action order). Every live call whose region is in `π` is there,
nothing else is, and no call appears twice. -/
theorem multi_fidelity {α β} (need : α → Nat) (calls : List (MCall α β))
    (hneed : ∀ c ∈ calls, need c.msg = c.cbs.length) (π : List Region) (hπ : π.Nodup)
    (rest : List β) :
    Spec.decodeMulti need (multiToProto calls π).regionActions
        ((multiToProto calls π).cellblocks ++ rest) = .ok (Spec.multiIntent calls π, rest) ∧
    (∀ i c, calls[i]? = some c → c.cancelled = false → c.region ∈ π →
      ∃ ra ∈ Spec.multiIntent calls π, ra.1 = c.region.name ∧
        (⟨i + 1, c.msg, c.cbs⟩ : Spec.DecodedAction α β) ∈ ra.2) ∧
    (∀ ra ∈ Spec.multiIntent calls π, ∀ a ∈ ra.2,
      ∃ r ∈ π, ra.1 = r.name ∧ ∃ i c, calls[i]? = some c ∧ a.index = i + 1 ∧
        c.cancelled = false ∧ c.region = r ∧ a.msg = c.msg ∧ a.cbs = c.cbs) ∧
    ((Spec.multiIntent calls π).flatMap fun ra => ra.2.map (·.index)).Nodup ∧
    (∀ r, ((actionsOf calls r).map (·.1)).Pairwise (· < ·)) ∧
    (multiToProto calls π).regions = π :=
  ⟨decodeMulti_intent need calls hneed π rest, fun i c h hl hr => multi_complete' calls π i c h hl hr,
   fun ra hra a ha => multi_sound' calls π ra hra a ha, multi_once' calls π hπ,
   fun r => actionsOf_sorted calls r, rfl⟩

/-- The reading of `multi_fidelity` the property asks for: payloads are Gets and mutations,
`β` is the type of cells, every mutation announces as many cells as it contributes
(`mutate_cellblock_fidelity`: `associated_cell_count = count`), a Get none. Then each action's
cells are the next `associated_cell_count` cells of the cellblock stream, in region-action order. -/
theorem multi_fidelity_cells {κ} (calls : List (MCall ActionMsg κ))
    (hcount : ∀ c ∈ calls, cellNeed c.msg = c.cbs.length) (π : List Region) (rest : List κ) :
    Spec.decodeMulti cellNeed (multiToProto calls π).regionActions
        ((multiToProto calls π).cellblocks ++ rest) = .ok (Spec.multiIntent calls π, rest) :=
  decodeMulti_intent cellNeed calls hcount π rest

def exCalls : List (MCall String Nat) :=
  [⟨false, ⟨0, [65]⟩, "put0", [10, 11], 2⟩, ⟨true, ⟨1, [66]⟩, "get1", [], 0⟩,
   ⟨false, ⟨1, [66]⟩, "put2", [20], 1⟩, ⟨false, ⟨0, [65]⟩, "get3", [], 0⟩]

example : Spec.multiIntent exCalls [⟨1, [66]⟩, ⟨0, [65]⟩] =
    [([66], [⟨3, "put2", [20]⟩]), ([65], [⟨1, "put0", [10, 11]⟩, ⟨4, "get3", []⟩])] ∧
    (multiToProto exCalls [⟨1, [66]⟩, ⟨0, [65]⟩]).cellblocks = [20, 10, 11] := by decide

end GV.ToProto
