import GohbaseVerif.Lemmas.Cache
import GohbaseVerif.Props.C08
/-!
# C01 — Requests are routed to the region that owns the row key

`Model/Routing.lean` on top of the cache model: `getRegionFromCache` (search key, `Seek` + `Prev`,
table check, stop-key check), the acceptance checks of `metaLookup`, and the
`getRegionForRpc`/`findRegion` loop against `Env.Meta`.

Domain: a good cache (`Good`, C08's invariant — established by `reachable_good`), a looked-up
table name without `','` and short enough for `createRegionSearchKey` (`|t| + 3 ≤ 32767`,
otherwise the Go code panics in `make`: `long_table_panics`), any row key whatsoever.
-/
set_option linter.unusedSimpArgs false
namespace GV.Routing
open GV GV.RegionName GV.Cache

/-- The cache lookup never panics (no exact match of the search key, no comparison panic). -/
theorem cache_lookup_total {l : List Region} (hg : GoodL l) {t : Bytes} (ht : comma ∉ t)
    (hlen : t.length + 3 ≤ 32767) (k : Bytes) : ∃ o, getRegionFromCache l t k = .ok o := by
  obtain ⟨p, _, _, _, h⟩ := getRegionFromCache_eq hg.wf hg.sorted ht hlen k
  exact ⟨_, h⟩

/-- **Cache hit ⇔ owner.**  For *every* row key (including keys longer than the `MaxInt16`
truncation of the search key): the cache lookup returns `r` iff `r` is cached, belongs to the
requested table and its `[start, stop)` contains the key. -/
theorem cache_hit_iff_owner {l : List Region} (hg : GoodL l) {t : Bytes} (ht : comma ∉ t)
    (hlen : t.length + 3 ≤ 32767) (k : Bytes) (r : Region) :
    getRegionFromCache l t k = .ok (some r) ↔ r ∈ l ∧ r.fq = t ∧ r.contains k := by
  obtain ⟨p, hp, hb, ha, hget⟩ := getRegionFromCache_eq hg.wf hg.sorted ht hlen k
  rw [hget]
  constructor
  · intro h
    injection h with h
    by_cases hp0 : p = 0
    · simp [hp0, pick] at h
    · simp only [hp0, if_false] at h
      cases hv : l[p - 1]? with
      | none => rw [hv] at h; simp [pick] at h
      | some v =>
        rw [hv] at h
        simp only [pick] at h
        by_cases h1 : (v.fq != t) = true
        · simp [h1] at h
        · simp only [h1, Bool.false_eq_true, if_false] at h
          by_cases h2 : (!v.stop.isEmpty && bcmp k v.stop != .lt) = true
          · simp [h2] at h
          · simp only [h2, Bool.false_eq_true, if_false, Option.some.injEq] at h
            subst h
            have hfq : v.fq = t := by simpa using h1
            have hmem : v ∈ l := List.mem_of_getElem? hv
            have hvB : Below t (cutKey t k) v := by
              apply hb
              rw [List.mem_take_iff_getElem]
              obtain ⟨e1, e2⟩ := List.getElem?_eq_some_iff.mp hv
              exact ⟨p - 1, by omega, e2⟩
            refine ⟨hmem, hfq, ?_, ?_⟩
            · rcases hvB with h | ⟨_, h⟩
              · rw [hfq] at h; simp at h
              · exact (cutKey_le_iff (hg.wf v hmem) hfq k).mp h
            · simp only [Bool.and_eq_true, Bool.not_eq_true', bne_iff_ne, ne_eq, not_and,
                Decidable.not_not, List.isEmpty_eq_false_iff] at h2
              by_cases hs : v.stop = []
              · exact .inl hs
              · exact .inr (h2 hs)
  · rintro ⟨hr, hfq, hstart, hstop⟩
    have hrwf := hg.wf r hr
    have hstart' : bcmp r.start (cutKey t k) ≠ .gt := (cutKey_le_iff hrwf hfq k).mpr hstart
    have hp0 : 0 < p := by
      rcases Nat.eq_zero_or_pos p with e | e
      · subst e
        exact absurd (.inr ⟨hfq, hstart'⟩) (ha r (by simpa using hr))
      · exact e
    have hlt : p - 1 < l.length := by omega
    have hv : l[p - 1]? = some l[p - 1] := List.getElem?_eq_getElem hlt
    have := owner_is_last_below hg hr hfq hstart' hstop hv hp0 hb ha
    have hpne : p ≠ 0 := by omega
    simp only [hpne, if_false, hv, ← this, pick]
    have h1 : (r.fq != t) = false := by simp [hfq]
    have h2 : (!r.stop.isEmpty && bcmp k r.stop != .lt) = false := by
      rcases hstop with h | h
      · simp [h]
      · simp [h]
    simp [h1, h2]

/-- A key outside every cached range of its table is a miss — never the neighbouring region,
never a region of a same-prefixed table: the request goes to `hbase:meta`. -/
theorem cache_miss_outside {l : List Region} (hg : GoodL l) {t : Bytes} (ht : comma ∉ t)
    (hlen : t.length + 3 ≤ 32767) (k : Bytes)
    (hout : ∀ x ∈ l, x.fq = t → ¬ x.contains k) : getRegionFromCache l t k = .ok none := by
  obtain ⟨o, ho⟩ := cache_lookup_total hg ht hlen k
  cases o with
  | none => exact ho
  | some r =>
    obtain ⟨h1, h2, h3⟩ := (cache_hit_iff_owner hg ht hlen k r).mp ho
    exact absurd h3 (hout r h1 h2)

/-- A cached region is only ever returned for its own table (`t` vs `t2`, `t` vs `ns:t`). -/
theorem cache_hit_same_table {l : List Region} (hg : GoodL l) {t : Bytes} (ht : comma ∉ t)
    (hlen : t.length + 3 ≤ 32767) (k : Bytes) (r : Region)
    (h : getRegionFromCache l t k = .ok (some r)) : r.fq = t :=
  ((cache_hit_iff_owner hg ht hlen k r).mp h).2.1

/-- Out of the domain: a table name too long for a meta row makes `createRegionSearchKey` panic. -/
theorem long_table_panics (l : List Region) (t k : Bytes) (h : 32767 < t.length + 3) :
    (getRegionFromCache l t k).isFault = true := by
  have : Gen.Wire.searchKeyMax < t.length + Gen.Wire.searchKeySlack := by
    simpa [Gen.Wire.searchKeyMax, Gen.Wire.searchKeySlack] using h
  simp [getRegionFromCache, searchKeyO, this, Outcome.isFault]

/-- `metaLookup` only accepts a row of the requested table whose stop key lies beyond the key.
(It does not check `start ≤ key`: that part is `Env.Meta`'s — `meta_returns_owner`.) -/
theorem meta_accepts_only_covering (t k : Bytes) (m : Region) (h : metaAccepts t k m = true) :
    m.fq = t ∧ (m.stop = [] ∨ bcmp k m.stop = .lt) := by
  unfold metaAccepts at h
  simp only [Bool.and_eq_true, beq_iff_eq, Bool.not_eq_true', Bool.and_eq_false_iff,
    Bool.not_eq_false', bne_eq_false_iff_eq, List.isEmpty_iff] at h
  exact ⟨h.1.symm, h.2⟩

theorem meta_accepts_owner {t k : Bytes} {o : Region} (hfq : o.fq = t) (hk : o.contains k) :
    metaAccepts t k o = true := by
  unfold metaAccepts
  rcases hk.2 with h | h
  · simp [hfq, h]
  · simp [hfq, h]

/-- With `Env.Meta` (greatest row ≤ the search key among the table's regions) over a good layout,
the meta answer for a key that has an owner is that owner, and `metaLookup` accepts it. -/
theorem meta_returns_owner {L : List Region} (hg : GoodL L) {t k : Bytes} (ht : comma ∉ t)
    {o : Region} (ho : o ∈ L) (hfq : o.fq = t) (hk : o.contains k) :
    metaRow L t k = some o ∧ metaAccepts t k o = true :=
  ⟨metaRow_owner hg ht ho hfq hk, meta_accepts_owner hfq hk⟩

/-- In a good layout a key has at most one owner. -/
theorem owner_unique {L : List Region} (hg : GoodL L) {a b : Region} (ha : a ∈ L) (hb : b ∈ L)
    (hfq : a.fq = b.fq) {k : Bytes} (hka : a.contains k) (hkb : b.contains k) : a = b := by
  by_cases e : a = b
  · exact e
  · have hsym : ∀ {x y : Region}, overlap x y = false → overlap y x = false :=
      fun h => by rw [overlap_symm]; exact h
    have hno := pairwise_forall_sym hsym hg.disjoint ha hb e
    have := (overlap_iff_ranges_intersect (hg.wf a ha) (hg.wf b hb)).mpr ⟨hfq, k, hka, hkb⟩
    rw [this] at hno; cases hno

/-- **Routing is correct** over a static layout: whatever part of the layout is already cached
(any first-touch order), a request for `(t, k)` whose key has an owner `o` in the layout is
addressed to `o` — from the cache without a meta lookup, or after exactly one meta lookup —
the cache stays a good subset of the layout, and no region is marked dead. -/
theorem route_correct {L : List Region} (hL : GoodL L) {c : Cache} (hc : Good c)
    (hsub : ∀ x ∈ c.regions, x ∈ L) {t k : Bytes} (ht : comma ∉ t) (hlen : t.length + 3 ≤ 32767)
    {o : Region} (ho : o ∈ L) (hfq : o.fq = t) (hk : o.contains k) :
    ∃ c' n, route L c t k = .ok (some o, c', n) ∧ n ≤ 1 ∧ Good c' ∧ (∀ x ∈ c'.regions, x ∈ L) ∧
      (n = 0 → c' = c ∧ o ∈ c.regions) ∧ (∀ x, x ∈ c'.dead ↔ x ∈ c.dead) := by
  unfold route Gen.Wire.maxFindRegionTries
  rw [show (10 : Nat) = 9 + 1 from rfl]
  simp only [routeN]
  obtain ⟨res, hres⟩ := cache_lookup_total hc ht hlen k
  rw [hres]
  cases res with
  | some r =>
    obtain ⟨h1, h2, h3⟩ := (cache_hit_iff_owner hc ht hlen k r).mp hres
    have : r = o := owner_unique hL (hsub r h1) ho (h2.trans hfq.symm) h3 hk
    subst this
    exact ⟨c, 0, rfl, by omega, hc, hsub, fun _ => ⟨rfl, h1⟩, fun _ => Iff.rfl⟩
  | none =>
    have honot : o ∉ c.regions := by
      intro hmem
      have := (cache_hit_iff_owner hc ht hlen k o).mpr ⟨hmem, hfq, hk⟩
      rw [hres] at this; injection this with e; cases e
    obtain ⟨hm, hacc⟩ := meta_returns_owner hL ht ho hfq hk
    have howf := hL.wf o ho
    have hname : ∀ x ∈ c.regions, x.name ≠ o.name := by
      intro x hx e
      have := sorted_name_inj hL.wf hL.sorted (hsub x hx) ho e
      subst this; exact honot hx
    have hnov : ∀ x ∈ c.regions, overlap x o = false := by
      intro x hx
      have hsym : ∀ {x y : Region}, overlap x y = false → overlap y x = false :=
        fun h => by rw [overlap_symm]; exact h
      exact pairwise_forall_sym hsym hL.disjoint (hsub x hx) ho (fun e => honot (e ▸ hx))
    obtain ⟨c', hp, hg', _, _, _, hsub'⟩ := put_newer_evicts_all hc howf hname
      (fun x hx hov => by rw [hnov x hx] at hov; cases hov)
    have hdead := others_not_marked hc howf hp
    simp only [hm, hacc, Bool.not_true, Bool.false_eq_true, if_false, hp]
    refine ⟨c', 1, rfl, Nat.le_refl _, hg', ?_, by omega, ?_⟩
    · intro x hx
      rcases hsub' x hx with e | h
      · rw [e]; exact ho
      · exact hsub x h
    · intro x
      constructor
      · intro hx
        rcases hdead.2 x hx with h | ⟨_, h1, h2, _⟩
        · exact h
        · rw [hnov x h1] at h2; cases h2
      · exact hdead.1 x

/-- Whatever `route` answers with is an owner: of the requested table, containing the key, in the
layout — a key that no region of the layout owns (a hole, an unknown or merely same-prefixed
table) is never sent to a neighbouring region or to another table. -/
theorem route_sound {L : List Region} (hL : GoodL L) {c : Cache} (hc : Good c)
    (hsub : ∀ x ∈ c.regions, x ∈ L) {t k : Bytes} (ht : comma ∉ t) (hlen : t.length + 3 ≤ 32767)
    {r : Region} {c' : Cache} {n : Nat} (h : route L c t k = .ok (some r, c', n)) :
    r ∈ L ∧ r.fq = t ∧ r.contains k := by
  obtain ⟨res, hres⟩ := cache_lookup_total hc ht hlen k
  cases res with
  | some r' =>
    obtain ⟨h1, h2, h3⟩ := (cache_hit_iff_owner hc ht hlen k r').mp hres
    obtain ⟨c'', n', hroute, _⟩ := route_correct hL hc hsub ht hlen (hsub r' h1) h2 h3
    rw [hroute] at h; injection h with h; injection h with h _; injection h with h
    subst h; exact ⟨hsub r' h1, h2, h3⟩
  | none =>
    cases hm : metaRow L t k with
    | none =>
      unfold route Gen.Wire.maxFindRegionTries at h
      rw [show (10 : Nat) = 9 + 1 from rfl] at h
      simp [routeN, hres, hm] at h
    | some m =>
      obtain ⟨m1, m2, m3⟩ := metaRow_sound hL ht hm
      by_cases hacc : metaAccepts t k m = true
      · have hk : m.contains k := ⟨m3, (meta_accepts_only_covering t k m hacc).2⟩
        obtain ⟨c'', n', hroute, _⟩ := route_correct hL hc hsub ht hlen m1 m2 hk
        rw [hroute] at h; injection h with h; injection h with h _; injection h with h
        subst h; exact ⟨m1, m2, hk⟩
      · unfold route Gen.Wire.maxFindRegionTries at h
        rw [show (10 : Nat) = 9 + 1 from rfl] at h
        simp [routeN, hres, hm, hacc] at h

/-! ### Contiguous layouts cover every key -/

/-- `l` is a run of contiguous regions starting at `s` and ending with an unbounded region. -/
def chainFrom (s : Bytes) : List Region → Prop
  | [] => False
  | [r] => r.start = s ∧ r.stop = []
  | r :: r' :: rest => r.start = s ∧ chainFrom r.stop (r' :: rest)

theorem chain_covers {l : List Region} {s k : Bytes} (h : chainFrom s l) (hs : bcmp s k ≠ .gt) :
    ∃ r ∈ l, r.contains k := by
  induction l generalizing s with
  | nil => exact absurd h (by simp [chainFrom])
  | cons r rest ih =>
    cases rest with
    | nil =>
      obtain ⟨h1, h2⟩ := h
      exact ⟨r, by simp, by rw [← h1] at hs; exact ⟨hs, .inl h2⟩⟩
    | cons r' rest' =>
      obtain ⟨h1, h2⟩ := h
      rcases bcmp_le_total r.stop k with hle | hlt
      · obtain ⟨x, hx, hxk⟩ := ih h2 hle
        exact ⟨x, by simp [hx], hxk⟩
      · exact ⟨r, by simp, by rw [← h1] at hs; exact ⟨hs, .inr hlt⟩⟩

/-- **C01 for contiguous layouts.** If table `t`'s regions in the layout contain a contiguous
chain from the empty start key to the empty stop key, then *every* row key (any bytes) is
routed to a region of `t` that contains it, with at most one meta lookup. -/
theorem route_correct_contiguous {L : List Region} (hL : GoodL L) {c : Cache} (hc : Good c)
    (hsub : ∀ x ∈ c.regions, x ∈ L) {t : Bytes} (ht : comma ∉ t) (hlen : t.length + 3 ≤ 32767)
    {chain : List Region} (hch : chainFrom [] chain) (hin : ∀ x ∈ chain, x ∈ L ∧ x.fq = t)
    (k : Bytes) :
    ∃ o c' n, route L c t k = .ok (some o, c', n) ∧ o ∈ L ∧ o.fq = t ∧ o.contains k ∧ n ≤ 1 ∧
      Good c' ∧ (∀ x ∈ c'.regions, x ∈ L) := by
  obtain ⟨o, ho, hk⟩ := chain_covers hch (bcmp_nil_le k)
  obtain ⟨hoL, hfq⟩ := hin o ho
  obtain ⟨c', n, hr, hn, hg', hsub', _, _⟩ := route_correct hL hc hsub ht hlen hoL hfq hk
  exact ⟨o, c', n, hr, hoL, hfq, hk, hn, hg', hsub'⟩

/-! ### Non-vacuity: tables `t`, `t2`, `ns:t` side by side -/

def rT : Region := ⟨[], [0x74], [], [0x62], [0x74, 0x2c, 0x2c, 0x31, 0x2e, 0x78], 1⟩
def rT' : Region := ⟨[], [0x74], [0x62], [], [0x74, 0x2c, 0x62, 0x2c, 0x32, 0x2e, 0x78], 2⟩
def rT2 : Region := ⟨[], [0x74, 0x32], [], [], [0x74, 0x32, 0x2c, 0x2c, 0x31, 0x2e, 0x78], 1⟩
def rNs : Region := ⟨[0x6e, 0x73], [0x74], [], [], [0x6e, 0x73, 0x3a, 0x74, 0x2c, 0x2c, 0x31, 0x2e, 0x78], 1⟩

/-- Key `b` of table `t` is served by `t,b,…`; key `a` by `t,,…`; the lookup for table `t2`
never returns a region of `t`; a table that is not cached misses. -/
example : getRegionFromCache [rNs, rT, rT', rT2] [0x74] [0x62] = .ok (some rT') ∧
    getRegionFromCache [rNs, rT, rT', rT2] [0x74] [0x61, 0xff] = .ok (some rT) ∧
    getRegionFromCache [rNs, rT, rT', rT2] [0x74, 0x32] [0x7a] = .ok (some rT2) ∧
    getRegionFromCache [rNs, rT, rT'] [0x74, 0x32] [0x7a] = .ok none ∧
    getRegionFromCache [rT, rT', rT2] [0x6e, 0x73, 0x3a, 0x74] [] = .ok none := by
  refine ⟨?_, ?_, ?_, ?_, ?_⟩ <;> decide

theorem rT_wf : rT.WF :=
  ⟨⟨[0x78], by show _ = mkName [0x74] [] (dec 1 ++ dot :: [0x78]); rw [dec_small (by decide)]; decide,
    by decide⟩, by decide, by decide, by decide, by decide⟩

theorem rT'_wf : rT'.WF :=
  ⟨⟨[0x78], by show _ = mkName [0x74] [0x62] (dec 2 ++ dot :: [0x78]); rw [dec_small (by decide)]; decide,
    by decide⟩, by decide, by decide, by decide, by decide⟩

/-- A two-region contiguous layout of table `t` satisfies every hypothesis of
`route_correct_contiguous` … -/
theorem layout2_good : GoodL [rT, rT'] ∧ chainFrom [] [rT, rT'] := by
  refine ⟨⟨?_, ?_, ?_⟩, ?_⟩
  · exact List.Pairwise.cons (by intro b hb; simp at hb; subst hb; unfold nameLt; decide)
      (List.Pairwise.cons (by simp) List.Pairwise.nil)
  · intro x hx
    simp only [List.mem_cons, List.mem_nil_iff, or_false] at hx
    rcases hx with h | h <;> subst h
    · exact rT_wf
    · exact rT'_wf
  · exact List.Pairwise.cons (by intro b hb; simp at hb; subst hb; decide)
      (List.Pairwise.cons (by simp) List.Pairwise.nil)
  · exact ⟨rfl, rfl, rfl⟩

/-- … and the model really routes: first touch of key `b` asks meta once and caches `t,b,…`;
the boundary key goes to the right-hand region, the key just below it to the left-hand one. -/
example : route [rT, rT'] Cache.empty [0x74] [0x62] = .ok (some rT', ⟨[rT'], []⟩, 1) ∧
    route [rT, rT'] ⟨[rT'], []⟩ [0x74] [0x61, 0xff, 0xff] = .ok (some rT, ⟨[rT, rT'], []⟩, 1) ∧
    route [rT, rT'] ⟨[rT, rT'], []⟩ [0x74] [0x62, 0x00] = .ok (some rT', ⟨[rT, rT'], []⟩, 0) := by
  refine ⟨?_, ?_, ?_⟩ <;> decide

end GV.Routing
