import GohbaseVerif.Lemmas.Retry
/-!
# C17 — Retries back off and never become a hot loop

`Gen.Backoff` (growth formula, start value, shape of the wait) and `Gen.RetryLoop` (what each
error class does in each retry loop) are regenerated from rpc.go on every run; the theorems
below are therefore statements about what the source says now.
-/
namespace GV.Retry
open GV.Gen GV.Gen.RetryLoop

/-- The one schedule: 16 ms doubling to 8.192 s, then +5 s up to 33.192 s, then constant. -/
theorem schedule_exact :
    (List.range 18).map sched =
      [16, 32, 64, 128, 256, 512, 1024, 2048, 4096, 8192,
       13192, 18192, 23192, 28192, 33192, 33192, 33192, 33192].map (· * msec) := by
  decide

theorem schedule_constant_from_14 (n : Nat) (h : 14 ≤ n) : sched n = 33192 * msec := by
  induction n with
  | zero => omega
  | succ n ih =>
    by_cases h14 : n + 1 = 14
    · rw [h14]; decide
    · have : sched n = 33192 * msec := ih (by omega)
      simp only [sched, this, nextBackoff_eq]
      decide

theorem schedule_monotone (n : Nat) : sched n ≤ sched (n + 1) := sched_mono n

theorem schedule_bounded (n : Nat) : 16 * msec ≤ sched n ∧ sched n ≤ 33192 * msec := by
  constructor
  · induction n with
    | zero => decide
    | succ n ih => exact Int.le_trans ih (sched_mono n)
  · by_cases h : 14 ≤ n
    · rw [schedule_constant_from_14 n h]; exact Int.le_refl _
    · have hm : ∀ k m, sched m ≤ sched (m + k) := by
        intro k; induction k with
        | zero => intro m; exact Int.le_refl _
        | succ k ih => intro m; exact Int.le_trans (ih m) (by rw [← Nat.add_assoc]; exact sched_mono _)
      have := hm (14 - n) n
      rw [show n + (14 - n) = 14 by omega] at this
      exact Int.le_trans this (by decide)

/-- The growth formula in the source is the one the property states. -/
theorem growth_formula (b : Int) :
    Backoff.nextBackoff b =
      if b < 5000 * msec then b * 2 else if b < 30000 * msec then b + 5000 * msec else b :=
  nextBackoff_eq b

/-- The wait inside `sleepAndIncreaseBackoff` lasts the whole back-off and has exactly two ways
out: the timer and the context (a wait ends early only through cancellation, which returns the
context error). -/
theorem wait_ends_early_only_by_cancel :
    (∀ b, Backoff.sleepFor b = b) ∧ Backoff.waitCases = 2 ∧ Backoff.waitHasCtxCase = true ∧
      Backoff.ctxCaseReturnsErr = true ∧ Backoff.shapeOk = true ∧ RetryLoop.shapeOk = true := by
  refine ⟨fun _ => rfl, ?_, ?_, ?_, ?_, ?_⟩ <;> decide

/-! ## `SendRPC` -/

theorem sendRPCInit_eq : sendRPCInit = ⟨sched 0, 0⟩ := by
  simp [sendRPCInit, sched, sendRPC_initBackoff]

/-- Generalised: from a state whose back-off is `sched j`. -/
theorem sendRPC_sleeps_from (outs : List Cls) (j : Nat) (s : Int) :
    ∃ k, sleepsOf (runRPC ⟨sched j, s⟩ outs) = schedFrom j k := by
  induction outs generalizing j s with
  | nil => exact ⟨0, rfl⟩
  | cons c rest ih =>
    cases c
    · exact ⟨0, by simp [sendRPC_ok, sleepsOf, schedFrom]⟩
    · exact ⟨0, by simp [sendRPC_fatal, sleepsOf, schedFrom]⟩
    · obtain ⟨k, hk⟩ := ih (j + 1) s
      exact ⟨k + 1, by rw [sendRPC_retryable]; simp [sleepsOf, schedFrom, hk]⟩
    · by_cases hs : s > 1
      · obtain ⟨k, hk⟩ := ih (j + 1) (s + 1)
        exact ⟨k + 1, by rw [sendRPC_server_sleep j s hs]; simp [sleepsOf, schedFrom, hk]⟩
      · obtain ⟨k, hk⟩ := ih j (s + 1)
        exact ⟨k, by rw [sendRPC_server_imm j s hs]; simp [sleepsOf, hk]⟩
    · by_cases hs : s > 1
      · obtain ⟨k, hk⟩ := ih (j + 1) (s + 1)
        exact ⟨k + 1, by rw [sendRPC_nsre_sleep j s hs]; simp [sleepsOf, schedFrom, hk]⟩
      · obtain ⟨k, hk⟩ := ih j (s + 1)
        exact ⟨k, by rw [sendRPC_nsre_imm j s hs]; simp [sleepsOf, hk]⟩

/-- Whatever the outcome sequence, the waits of a single call are, in order, an initial segment
of the schedule. -/
theorem sendRPC_sleeps_follow_schedule (outs : List Cls) :
    ∃ k, sleepsOf (sendRPC Backoff.nextBackoff sendRPCArms sendRPCInit outs) = schedFrom 0 k := by
  rw [sendRPCInit_eq]; exact sendRPC_sleeps_from outs 0 0

theorem sendRPC_retryable_never_immediate (outs : List Cls) (j : Nat) (s : Int) :
    immediateRetries .retryable (runRPC ⟨sched j, s⟩ outs) = 0 := by
  induction outs generalizing j s with
  | nil => rfl
  | cons c rest ih =>
    cases c
    · simp [sendRPC_ok, immediateRetries]
    · simp [sendRPC_fatal, immediateRetries]
    · rw [sendRPC_retryable, immediateRetries_attempt_sleep]; exact ih _ _
    · by_cases hs : s > 1
      · rw [sendRPC_server_sleep j s hs, immediateRetries_attempt_sleep]; exact ih _ _
      · rw [sendRPC_server_imm j s hs, immediateRetries_attempt_runRPC, ih]
        split <;> simp
    · by_cases hs : s > 1
      · rw [sendRPC_nsre_sleep j s hs, immediateRetries_attempt_sleep]; exact ih _ _
      · rw [sendRPC_nsre_imm j s hs, immediateRetries_attempt_runRPC, ih]
        split <;> simp

/-- A retry-later answer (region opening / too busy / call queue too big / throttling …) is
always followed by a wait before the next attempt. -/
theorem retryable_always_sleeps (outs : List Cls) :
    immediateRetries .retryable (sendRPC Backoff.nextBackoff sendRPCArms sendRPCInit outs) = 0 := by
  rw [sendRPCInit_eq]; exact sendRPC_retryable_never_immediate outs 0 0

theorem sendRPC_server_immediate_bound (outs : List Cls) (j : Nat) (s : Int) (hs : 0 ≤ s) :
    (s ≤ 2 → (immediateRetries .server (runRPC ⟨sched j, s⟩ outs) : Int) + s ≤ 2) ∧
    (2 ≤ s → immediateRetries .server (runRPC ⟨sched j, s⟩ outs) = 0) := by
  induction outs generalizing j s with
  | nil => simp [runRPC, sendRPC, immediateRetries]
  | cons c rest ih =>
    cases c
    · simp [sendRPC_ok, immediateRetries]
    · simp [sendRPC_fatal, immediateRetries]
    · rw [sendRPC_retryable, immediateRetries_attempt_sleep]; exact ih _ _ hs
    · by_cases h1 : s > 1
      · rw [sendRPC_server_sleep j s h1, immediateRetries_attempt_sleep]
        have := ih (j + 1) (s + 1) (by omega)
        omega
      · rw [sendRPC_server_imm j s h1, immediateRetries_attempt_runRPC]
        have := ih j (s + 1) (by omega)
        by_cases hr : rest = []
        · subst hr; simp; omega
        · simp [hr]; omega
    · by_cases h1 : s > 1
      · rw [sendRPC_nsre_sleep j s h1, immediateRetries_attempt_sleep]
        have := ih (j + 1) (s + 1) (by omega)
        omega
      · rw [sendRPC_nsre_imm j s h1, immediateRetries_attempt_runRPC]
        have := ih j (s + 1) (by omega)
        by_cases hr : rest = []
        · subst hr; simp; omega
        · simp [hr]; omega

/-- A connection-level failure is retried immediately at most twice per request; after that
every such failure is followed by a wait from the schedule. -/
theorem server_error_immediate_at_most_twice (outs : List Cls) :
    immediateRetries .server (sendRPC Backoff.nextBackoff sendRPCArms sendRPCInit outs) ≤ 2 := by
  rw [sendRPCInit_eq]
  have := (sendRPC_server_immediate_bound outs 0 0 (by omega)).1 (by omega)
  simp only [runRPC] at this
  omega

theorem sendRPC_nsre_immediate_bound (outs : List Cls) (j : Nat) (s : Int) (hs : 0 ≤ s) :
    (s ≤ 2 → (immediateRetries .nsre (runRPC ⟨sched j, s⟩ outs) : Int) + s ≤ 2) ∧
    (2 ≤ s → immediateRetries .nsre (runRPC ⟨sched j, s⟩ outs) = 0) := by
  induction outs generalizing j s with
  | nil => simp [runRPC, sendRPC, immediateRetries]
  | cons c rest ih =>
    cases c
    · simp [sendRPC_ok, immediateRetries]
    · simp [sendRPC_fatal, immediateRetries]
    · rw [sendRPC_retryable, immediateRetries_attempt_sleep]; exact ih _ _ hs
    · by_cases h1 : s > 1
      · rw [sendRPC_server_sleep j s h1, immediateRetries_attempt_sleep]
        have := ih (j + 1) (s + 1) (by omega)
        omega
      · rw [sendRPC_server_imm j s h1, immediateRetries_attempt_runRPC]
        have := ih j (s + 1) (by omega)
        by_cases hr : rest = []
        · subst hr; simp; omega
        · simp [hr]; omega
    · by_cases h1 : s > 1
      · rw [sendRPC_nsre_sleep j s h1, immediateRetries_attempt_sleep]
        have := ih (j + 1) (s + 1) (by omega)
        omega
      · rw [sendRPC_nsre_imm j s h1, immediateRetries_attempt_runRPC]
        have := ih j (s + 1) (by omega)
        by_cases hr : rest = []
        · subst hr; simp; omega
        · simp [hr]; omega

/-- A region-level refusal (NotServingRegion) is retried immediately at most twice per request as
well; after that every refusal is followed by a wait from the schedule — also when the region
passes its availability probe each time and refuses the request itself (fix in `SendRPC`: the
NotServingRegionError arm shares the ServerError arm's counter; before, the arm was a bare
`continue` and such a region was hammered without any wait). -/
theorem region_error_immediate_at_most_twice (outs : List Cls) :
    immediateRetries .nsre (sendRPC Backoff.nextBackoff sendRPCArms sendRPCInit outs) ≤ 2 := by
  rw [sendRPCInit_eq]
  have := (sendRPC_nsre_immediate_bound outs 0 0 (by omega)).1 (by omega)
  simp only [runRPC] at this
  omega

/-! ## Meta / ZooKeeper lookups and region re-establishment -/

theorem lookupLoop_sleeps (n j : Nat) :
    sleepsOf (lookupLoop Backoff.nextBackoff (sched j) n) = schedFrom j n := by
  induction n generalizing j with
  | zero => rfl
  | succ n ih =>
    simp only [lookupLoop, sleepAndIncrease_pos _ _ (sched_pos j)]
    have := ih (j + 1)
    simp only [sched] at this
    simp [sleepsOf, schedFrom, this]

/-- Every failed lookup (hbase:meta unreachable, ZooKeeper error) is followed by a wait, and
the waits are the schedule from its first entry. -/
theorem lookup_backs_off (n : Nat) :
    lookupRegion_initBackoff = some (sched 0) ∧ lookupAllRegions_initBackoff = some (sched 0) ∧
    lookupRegion_sleepThreadsBackoff = 1 ∧ lookupAllRegions_sleepThreadsBackoff = 1 ∧
    sleepsOf (lookupLoop Backoff.nextBackoff (sched 0) n) = schedFrom 0 n :=
  ⟨by decide, by decide, by decide, by decide, lookupLoop_sleeps n 0⟩

/-- Table administration (`checkProcedureWithBackoff` behind CreateTable / DeleteTable / EnableTable /
DisableTable, regenerated facts `checkProcedure_*`): the loop has the shape of the lookup loop — ask
for the procedure's state; while it is still running, wait and ask again — starts at the first
entry of the schedule and threads the grown back-off through, so a procedure that runs for a long
time is polled at the decaying rate of the schedule, under the caller's context. -/
theorem procedure_polls_back_off (n : Nat) :
    checkProcedure_initBackoff = some (sched 0) ∧ checkProcedure_sleepThreadsBackoff = 1 ∧
    checkProcedure_sleepCtx = ["ctx"] ∧
    sleepsOf (lookupLoop Backoff.nextBackoff (sched 0) n) = schedFrom 0 n :=
  ⟨by decide, by decide, by decide, lookupLoop_sleeps n 0⟩

/-! ## The gap monitor decides what the statement says -/

theorem gapsOk_tail (p : Nat → Nat → Bool) (g : Nat) (w : List Nat) (i : Nat)
    (h : gapsOk p (g :: w) i = true) : gapsOk p w (i + 1) = true := by
  simp only [gapsOk, Bool.and_eq_true] at h
  exact h.2

/-- The greedy judgement of the observed gaps answers exactly the question the property asks:
it accepts iff **some** choice of at most `k - d` gaps to leave out (the immediate retries the
property allows) makes every remaining gap long enough for its slot of the schedule. Neither
direction needs anything about `p` (not even that the schedule grows). -/
theorem greedy_decides_some_choice (p : Nat → Nat → Bool) (k : Nat) :
    ∀ (gaps : List Nat) (i d : Nat), d ≤ k →
      (greedyFollows p k gaps i d = true ↔
        ∃ w : List Nat, w.Sublist gaps ∧ gaps.length ≤ w.length + (k - d) ∧ gapsOk p w i = true) := by
  intro gaps
  induction gaps with
  | nil =>
    intro i d _
    simp only [greedyFollows, true_iff]
    exact ⟨[], List.Sublist.refl _, by simp, rfl⟩
  | cons g gs ih =>
    intro i d hd
    constructor
    · intro h
      unfold greedyFollows at h
      by_cases hp : p i g = true
      · rw [if_pos hp] at h
        obtain ⟨w, hw, hl, hok⟩ := (ih (i + 1) d hd).1 h
        refine ⟨g :: w, hw.cons_cons g, by simp only [List.length_cons]; omega, ?_⟩
        simp [gapsOk, hp, hok]
      · rw [if_neg hp] at h
        by_cases hdk : d < k
        · rw [if_pos hdk] at h
          obtain ⟨w, hw, hl, hok⟩ := (ih i (d + 1) (by omega)).1 h
          exact ⟨w, hw.cons g, by simp only [List.length_cons]; omega, hok⟩
        · rw [if_neg hdk] at h
          exact absurd h (by simp)
    · rintro ⟨w, hw, hl, hok⟩
      unfold greedyFollows
      by_cases hp : p i g = true
      · rw [if_pos hp]
        refine (ih (i + 1) d hd).2 ?_
        cases hw with
        | cons _ hw' =>
          -- the witness leaves `g` out although it would do: leave out its first kept gap instead
          cases w with
          | nil => exact ⟨[], List.nil_sublist _, by simp only [List.length_cons, List.length_nil] at hl ⊢; omega, rfl⟩
          | cons x w' =>
            refine ⟨w', (List.sublist_cons_self x w').trans hw', ?_, gapsOk_tail p x w' i hok⟩
            simp only [List.length_cons] at hl ⊢
            omega
        | cons_cons _ hw' =>
          rename_i w'
          refine ⟨w', hw', by simp only [List.length_cons] at hl ⊢; omega, ?_⟩
          exact gapsOk_tail p g w' i hok
      · rw [if_neg hp]
        cases hw with
        | cons _ hw' =>
          have hdk : d < k := by
            simp only [List.length_cons] at hl
            have := hw'.length_le
            omega
          rw [if_pos hdk]
          exact (ih i (d + 1) (by omega)).2 ⟨w, hw', by simp only [List.length_cons] at hl ⊢; omega, hok⟩
        | cons_cons _ hw' =>
          simp only [gapsOk, Bool.and_eq_true] at hok
          exact absurd hok.1 hp

/-- non-vacuity: a loaded machine's slow immediate retry (14.9 ms) followed by the schedule's waits
is accepted with two gaps to spare, a third short gap is not -/
example : greedyFollows (fun i g => g ≥ 16 * 2 ^ i) 2 [14, 16, 34, 64] 0 0 = true ∧
    greedyFollows (fun i g => g ≥ 16 * 2 ^ i) 2 [1, 1, 1, 16] 0 0 = false := by decide

/-- What a final answer means for the caller. -/
def ProcAns.result : ProcAns → ProcRes
  | .finished => .ok | .exception => .procException | .notFound => .notFound | .running => .exhausted

theorem procLoop_running_prefix (n j : Nat) (a : ProcAns) (rest : List ProcAns) (ha : a ≠ .running) :
    procLoop Backoff.nextBackoff (sched j) (List.replicate n .running ++ a :: rest)
      = (a.result, n + 1, schedFrom j n) := by
  induction n generalizing j with
  | zero => cases a <;> simp_all [procLoop, ProcAns.result, schedFrom]
  | succ n ih =>
    have := ih (j + 1)
    simp only [sched] at this
    simp [List.replicate_succ, procLoop, sleepAndIncrease_pos _ _ (sched_pos j), this, schedFrom]

/-- An admin call whose procedure is reported RUNNING `n` times and then gets a final answer sends
exactly `n + 1` polls, waits the first `n` entries of the schedule between them, and ends with what
that first final answer means — whatever the master would have answered afterwards. -/
theorem procedure_result_is_first_final_answer (n : Nat) (a : ProcAns) (rest : List ProcAns)
    (ha : a ≠ .running) :
    procLoop Backoff.nextBackoff (sched 0) (List.replicate n .running ++ a :: rest)
      = (a.result, n + 1, schedFrom 0 n) := procLoop_running_prefix n 0 a rest ha

/-- non-vacuity: three RUNNING answers, then an exception; the answer after it is never asked for -/
example : procLoop Backoff.nextBackoff (sched 0) [.running, .running, .running, .exception, .finished]
    = (.procException, 4, [16 * msec, 32 * msec, 64 * msec]) := by decide

theorem establishLoop_sleeps_pos (n j : Nat) :
    sleepsOf (establishLoop Backoff.nextBackoff (sched j) n) = schedFrom j (n + 1) := by
  induction n generalizing j with
  | zero => simp [establishLoop, sleepAndIncrease_pos _ _ (sched_pos j), sleepsOf, schedFrom]
  | succ n ih =>
    simp only [establishLoop, sleepAndIncrease_pos _ _ (sched_pos j)]
    have := ih (j + 1)
    simp only [sched] at this
    simp [sleepsOf, schedFrom, this]

/-- Region (re-)establishment: the first attempt is immediate, every later attempt is preceded by
the next wait of the schedule (so a region that never comes online is probed at a decaying rate). -/
theorem establish_backs_off (n : Nat) :
    establishRegion_initBackoff = some 0 ∧ establishRegion_sleepThreadsBackoff = 1 ∧
    sleepsOf (establishLoop Backoff.nextBackoff 0 n) = schedFrom 0 n := by
  refine ⟨by decide, by decide, ?_⟩
  cases n with
  | zero => simp [establishLoop, sleepAndIncrease_zero, sleepsOf, schedFrom]
  | succ n =>
    simp only [establishLoop, sleepAndIncrease_zero]
    have := establishLoop_sleeps_pos n 0
    simp only [sched] at this
    simp [sleepsOf, this]

/-! ## `SendBatch` -/

theorem sendBatch_guard : sendBatch_immediateGuard = some ("immediateRetries", 1) := by decide

theorem sendBatch_immediate_bound (rounds : List Bool) (j : Nat) (i : Int) (hi : 0 ≤ i) :
    (i ≤ 2 → (immediateRetries .server (runBatch ⟨sched j, i⟩ rounds) : Int) + i ≤ 2) ∧
    (2 ≤ i → immediateRetries .server (runBatch ⟨sched j, i⟩ rounds) = 0) ∧
    immediateRetries .retryable (runBatch ⟨sched j, i⟩ rounds) = 0 := by
  induction rounds generalizing j i with
  | nil => simp [runBatch_nil, immediateRetries]
  | cons b rest ih =>
    cases b
    · by_cases h1 : i > 1
      · rw [batch_imm_sleep j i h1, immediateRetries_attempt_sleep, immediateRetries_attempt_sleep]
        have := ih (j + 1) (i + 1) (by omega)
        exact ⟨by omega, by omega, this.2.2⟩
      · rw [batch_imm j i h1, immediateRetries_attempt_runBatch, immediateRetries_attempt_runBatch]
        have := ih j (i + 1) (by omega)
        refine ⟨?_, ?_, by simp [this.2.2]⟩
        · simp; omega
        · simp; omega
    · rw [batch_need, immediateRetries_attempt_sleep, immediateRetries_attempt_sleep]
      exact ih (j + 1) i hi

/-- Batched calls: a round that failed only with connection/region errors is retried immediately
at most twice per batch; a round with a retry-later answer always waits. -/
theorem batch_immediate_at_most_twice (rounds : List Bool) :
    sendBatch_initBackoff = some (sched 0) ∧
    immediateRetries .server
      (sendBatchRounds Backoff.nextBackoff sendBatch_immediateGuard ⟨sched 0, 0⟩ rounds) ≤ 2 ∧
    immediateRetries .retryable
      (sendBatchRounds Backoff.nextBackoff sendBatch_immediateGuard ⟨sched 0, 0⟩ rounds) = 0 := by
  rw [sendBatch_guard]
  have := sendBatch_immediate_bound rounds 0 0 (by omega)
  have h1 := this.1 (by omega)
  simp only [runBatch] at this h1
  exact ⟨by decide, by omega, this.2.2⟩

/-- The immediate-retry counters are only ever initialised to 0 and incremented (a reset anywhere
in the loop would defeat the "at most twice" bound that the loop models above assume). -/
theorem retry_counters_never_reset :
    sendRPC_serverErrorCount_writes = [":=0", "++"] ∧
    sendBatch_immediateRetries_writes = [":=0", "++"] := by decide

/-! ## Non-vacuity -/
example : sendRPC Backoff.nextBackoff sendRPCArms sendRPCInit [.server, .server, .server, .retryable, .ok] =
    [.attempt .server, .attempt .server, .attempt .server, .sleep (16 * msec),
     .attempt .retryable, .sleep (32 * msec), .attempt .ok] := by decide
example : establishLoop Backoff.nextBackoff 0 2 =
    [.attempt .retryable, .sleep (16 * msec), .attempt .retryable, .sleep (32 * msec), .attempt .ok] := by
  decide

/-! ## What the environment sees: the rate of one retry loop

The rate scenarios of the harness record the times at which the failing thing (ZooKeeper, hbase:meta,
a regionserver) is asked. `t k` is the time of the k-th attempt of one loop. -/

/-- the first `k` waits of the schedule, added up -/
def cumulative (k : Nat) : Int := ((List.range k).map sched).sum

/-- **One loop that waits at least the scheduled time between consecutive attempts cannot make
its k-th attempt before the first k waits have passed** — the bound the driver checks on the
attempt times of every rate scenario (`rate-above-schedule`), in addition to the gap-by-gap
comparison. It is what "the request rate is bounded and decays" amounts to for the environment. -/
theorem attempts_stay_under_schedule (t : Nat → Int) (h : ∀ k, sched k ≤ t (k + 1) - t k) (k : Nat) :
    cumulative k ≤ t k - t 0 := by
  induction k with
  | zero => simp [cumulative]
  | succ n ih =>
    have hn := h n
    have : cumulative (n + 1) = cumulative n + sched n := by
      simp only [cumulative, List.range_succ, List.map_append, List.map_cons, List.map_nil,
        List.sum_append, List.sum_cons, List.sum_nil, Int.add_zero]
    omega

/-- Two loops for one failing region, each on the schedule by itself (what the seeded change
C17-m9 produces: a second establisher started 60 ms after the first), break that bound: the fourth
attempt the environment sees comes at 76 ms, before the 16 + 32 + 64 = 112 ms one loop needs. -/
example : cumulative 3 = 112 * msec ∧ (76 : Int) * msec < cumulative 3 := by decide

end GV.Retry
