import GohbaseVerif.Gen.Exits
import GohbaseVerif.Lemmas.ConnCache
import GohbaseVerif.Gen.Selects
/-!
# C19 — Close is terminal and leaves nothing running

Model: `Model/ConnCache.lean` (`Close` = `closeBegin` ; `closeAllRun`, establishers relative to
their last look at `c.done`; the master connection separately).  `flag = true` / `check = true`
is the current source (fix a1d563d: `closed` flag in the connection cache, set by `closeAll` under
the lock, `put` returns nil afterwards; the admin path looks at `c.done` after publishing).
`flag = false` / `check = false` is the source before that fix; the witnesses against it are kept
below as the documented reason for the flag.
-/
namespace GV.ConnCache
open GV.Gen.Selects

/-! ## Close twice -/

/-- A second `Close` finds `closeOnce` taken and changes nothing; `closeAll` never runs twice. -/
theorem close_twice_noop (flag : Bool) (s : State) (h : s.onceStarted = true) :
    step flag s .closeBegin = some s ∧
    (s.closeAllDone = true → step flag s .closeAllRun = none) := by
  constructor
  · simp [step, h]
  · intro hd; simp [step, hd]

/-- `Close` is the `closeOnce.Do` of the source (the only bare operation in `client.Close`) -/
theorem close_under_once :
    bareOps.filter (·.fn = "client.Close") = [⟨"gohbase", "client.Close", "do", "c.closeOnce"⟩] := by
  decide

example : run true init [.closeBegin, .closeAllRun, .closeBegin] =
    run true init [.closeBegin, .closeAllRun] := by decide
example : run true init [.closeBegin, .closeAllRun, .closeAllRun] = none := by decide

/-! ## Waiters -/

/-- Every wait of `getRegionAndClientForRPC` (the only place a call waits for a region) has the
`c.done` case, so `close(c.done)` releases every waiter; the same holds for the hand-over to a
region connection's writer (`QueueBatch`) with that connection's `done`, closed by `closeAll`;
and the two looks an establisher takes at `c.done` are non-blocking. -/
theorem waiters_released_by_close :
    (∀ s ∈ selects, s.fn = "client.getRegionAndClientForRPC" → "recv:c.done" ∈ s.cases) ∧
    (selects.filter (·.fn = "client.getRegionAndClientForRPC")).length = 2 ∧
    (∀ s ∈ selects, s.fn = "client.QueueBatch" ∨ s.fn = "client.QueueRPC" → "recv:c.done" ∈ s.cases) ∧
    (∀ s ∈ selects, s.fn = "client.reestablishRegion" ∨ s.fn = "client.establishRegion" →
      s.cases = ["default", "recv:c.done"]) := by
  decide

/-- the admin path's look at `c.done` after publishing the master connection is in the source -/
theorem admin_path_checks_done :
    (selects.filter (·.fn = "client.establishRegion")).map (·.cases) = [["default", "recv:c.done"]] := by
  decide

/-- negative: a wait without the `done` case would not pass -/
example : ¬ ("recv:c.done" ∈ (⟨"gohbase", "sendBlocking", 0, ["recv:ctx.Done()", "recv:rpc.ResultChan()"]⟩ : Sel).cases) := by
  decide

/-! ## closeAll closes what is cached -/

/-- `closeAll` closes every connection that is in the cache when it runs. -/
theorem all_cached_connections_closed (flag : Bool) {s s' : State}
    (h : step flag s .closeAllRun = some s') :
    ∀ c ∈ s'.conns, s'.cache.any (·.id == c.id) = true → c.closed = true := by
  simp only [step] at h
  split at h
  · injection h with h; subst h
    intro c hc ha
    obtain ⟨c0, h0, rfl⟩ := List.mem_map.mp hc
    have hid : (if s.cache.any (·.id == c0.id) = true then { c0 with closed := true } else c0).id = c0.id := by
      split <;> rfl
    simp only [hid] at ha
    simp [ha]
  · cases h

example : (run true init [.spawnEstablish, .estPut 5 1, .estPut 6 2, .dial 0, .closeBegin, .closeAllRun]).map
    (fun s => (s.conns.map (·.closed), openCached s)) = some ([true, true], []) := by decide

/-! ## No connection appears after Close -/

/-- "after `Close` has run `closeAll`, no new connection object is created" -/
def NoNewConnectionAfterClose (flag : Bool) : Prop :=
  ∀ s, Reachable flag s → ∀ c ∈ s.conns, c.afterClose = false

/-- "once `closeAll` has run, no cached connection is open" -/
def NothingOpenAfterClose (flag : Bool) : Prop :=
  ∀ s, Reachable flag s → s.closeAllDone = true → openCached s = []

/-- An establisher that is past its last look at `c.done` (or, started by `findRegion`, never
takes one) and calls `clients.put` after `closeAll` gets nil: no connection object is ever
created after `closeAll`, over all interleavings. -/
theorem no_new_connection_after_close : NoNewConnectionAfterClose true :=
  fun _ hr => (goodF_of_reachable hr).noneAfter

/-- … and after `closeAll` every cached connection is closed, for good. -/
theorem nothing_open_after_close : NothingOpenAfterClose true := by
  intro s hr hd
  have hg := (goodF_of_reachable hr).allClosed hd
  unfold openCached
  rw [List.map_eq_nil_iff, List.filter_eq_nil_iff]
  intro c hc
  cases hany : s.cache.any (·.id == c.id) with
  | false => simp
  | true => simp [hg c hc hany]

/-- the race of DESIGN §7 item 11, (A) through `go c.reestablishRegion`: past the `done` check,
then `Close` runs completely, then `clients.put` for an address that is not cached -/
def raceReestablish : List Action :=
  [.spawnReestablish, .estCheck, .closeBegin, .closeAllRun, .estPut 5 1, .dial 0]

/-- (B) through `findRegion`'s `go c.establishRegion(reg, addr)`, which takes no look at `c.done`
before `clients.put` at all (the requester finished its meta lookup just before `Close`) -/
def raceFindRegion : List Action :=
  [.spawnEstablish, .closeBegin, .closeAllRun, .estPut 5 1, .dial 0]

/-- against the current source both races end with `put` refusing: nothing created, nothing open -/
example : (run true init raceReestablish).map (fun s => (s.conns, s.cache, openCached s)) =
    some ([], [], []) := by decide
example : (run true init raceFindRegion).map (fun s => (s.conns, s.cache, openCached s)) =
    some ([], [], []) := by decide
example : (put true { onceStarted := true, closeAllDone := true, past := 1 } 5 1).2 = .refused := by
  decide

def demoOpen : List Action :=
  [.spawnEstablish, .spawnReestablish, .estCheck, .estPut 5 1, .estPut 6 2, .dial 0, .clientDown 0, .estPut 5 1]
/-- before `Close` the flag changes nothing -/
example : run true init demoOpen = run false init demoOpen := by decide
example : (run true init demoOpen).map (fun s => s.conns.length) = some 3 := by decide

/-! ### Why the flag is needed: the source before a1d563d (`flag = false`)

Reproduced on the real client by the integrator before the fix (ZooKeeper answering the meta
lookup after `Close` had returned). -/

example : (run false init raceReestablish).map
    (fun s => (s.closeAllDone, s.conns.map fun c => (c.afterClose, c.closed, c.dials), openCached s))
    = some (true, [(true, false, 1)], [0]) := by decide
example : (run false init raceFindRegion).map
    (fun s => (s.closeAllDone, s.conns.map fun c => (c.afterClose, c.closed, c.dials), openCached s))
    = some (true, [(true, false, 1)], [0]) := by decide

/-- the state both races end in (before the dial): a connection made after `closeAll`, cached, open -/
def leaked : State where
  conns := [{ id := 0, addr := 5, afterClose := true }]
  cache := [⟨0, 5, [1]⟩]
  nextId := 1
  onceStarted := true
  closeAllDone := true
  past := 1

theorem leaked_reachable_before_fix : Reachable false leaked :=
  ⟨[.spawnReestablish, .estCheck, .closeBegin, .closeAllRun, .estPut 5 1], by decide⟩

theorem leaked_reachable_before_fix_via_findRegion : Reachable false leaked :=
  ⟨[.spawnEstablish, .closeBegin, .closeAllRun, .estPut 5 1], by decide⟩

/-- Without the flag the property does NOT hold. -/
theorem before_fix_new_connection_after_close : ¬ NoNewConnectionAfterClose false := by
  intro h
  have := h _ leaked_reachable_before_fix { id := 0, addr := 5, afterClose := true } (by simp [leaked])
  simp at this

theorem before_fix_open_after_close : ¬ NothingOpenAfterClose false := by
  intro h
  have := h _ leaked_reachable_before_fix_via_findRegion rfl
  revert this; decide

/-! ## The master connection (not cached) -/

/-- Once `Close` has dealt with the admin connection and no establisher is between publishing a
master connection and its look at `c.done`, the published master connection is closed: either
`Close` saw it, or its establisher saw `done` closed. -/
theorem admin_connection_closed_after_close {s : AState} (h : AReachable true s)
    (hc : s.closeAdminDone = true) (hq : s.pendingCheck = []) (k : Nat) (hk : s.adminClient = some k) :
    k ∈ s.closedConns := by
  rcases (goodA_of_reachable h).covered hc k hk with h1 | h1
  · exact h1
  · rw [hq] at h1; cases h1

/-- both orders: `Close` first, then the establisher publishes and checks; or publish, `Close`, check -/
example : (arun true {} [.closeDone, .closeAdmin, .publish, .checkDone 0]).map
    (fun s => (s.adminClient, s.closedConns, s.pendingCheck)) = some (some 0, [0], []) := by decide
example : (arun true {} [.publish, .closeDone, .closeAdmin, .checkDone 0]).map
    (fun s => (s.adminClient, s.closedConns, s.pendingCheck)) = some (some 0, [0, 0], []) := by decide
/-- before a1d563d (no look at `done` after publishing): the master connection stays open -/
example : (arun false {} [.closeDone, .closeAdmin, .publish]).map
    (fun s => (s.closeAdminDone, s.adminClient, s.closedConns, s.pendingCheck)) =
    some (true, some 0, [], []) := by decide

/-! ## DESIGN §7 item 13: a connection declared dead is not closed by the client

`clientDown` removes the connection from the cache; neither it nor `Close` closes it.  If the
connection failed by itself (`c.fail`) it is closed already; if `clientDown` was triggered by a
server-class *exception answer* (probe or call answered with e.g. RegionServerStoppedException)
the socket stays open.  Witness in the model: -/
example : (run true init [.spawnEstablish, .estPut 5 1, .dial 0, .clientDown 0, .closeBegin, .closeAllRun]).map
    (fun s => s.conns.map fun c => (c.down, c.closed)) = some [(true, false)] := by decide

end GV.ConnCache

namespace GV.ConnCache
open GV.Gen

/-- Regenerated from caches.go / rpc.go: the connection cache's `put` tests the `closed` flag first,
under the lock, and returns nil; `closeAll` sets it inside its critical section; `establishRegion`
returns when `put` refuses. These are the three source facts `no_new_connection_after_close` rests
on. -/
theorem closed_flag_in_source :
    Exits.putRefusesWhenClosedUnderLock = true ∧ Exits.closeAllSetsClosedUnderLock = true ∧
    Exits.establishReturnsWhenPutRefuses = true ∧ Exits.shapeOk = true := by decide

/-- Regenerated from rpc.go: the retry loop of `lookupRegion` looks at `c.done` at the top of every
iteration (fix 20b6aaa).  The lookups for hbase:meta and the master go to ZooKeeper, which knows
nothing about the client being closed, and the loop's own context is the region's: without this
look a failing ZooKeeper kept the establisher of hbase:meta — its goroutine and its lookups — alive
for ever after `Close` (observed as `activity-after-close-first-call-zk-down`). -/
theorem lookup_loop_watches_done_in_source :
    (GV.Gen.Selects.selects.filter (fun s => s.fn == "client.lookupRegion")).map (·.cases)
      = [["default", "recv:c.done"]] := by decide

/-- Regenerated from region/new.go (`Dial`, fixes 929dc0f and 31e64ef): inside `dialOnce.Do` the
region client asks "am I closed?" before it dials (a client closed before anybody dialled it does
not connect at all) and again right after it has stored the connection and before it says hello
(a client closed while the dialer was connecting closes what the dialer hands out, whatever happens
to the hello): no connection is opened, or left open, by a region client after its `Close`. -/
theorem dial_checks_closed_before_and_after_in_source :
    GV.Gen.Exits.dialSteps = ["closed?", "dial", "store", "closed?", "hello"] := by decide

/-- Regenerated from zk/client.go (`LocateResource`): the ZooKeeper session opened for one lookup is
released by a `defer` placed right after the connect and before the read, i.e. on every path out
of the function — a failed read included. A session that is not closed keeps its goroutines and
keeps redialling the quorum once a second, whatever the client's `Close` does (observed as
`activity-after-close-zookeeper-down-real` on a seeded change). -/
theorem zookeeper_session_released_on_every_path_in_source :
    GV.Gen.Exits.zkLocateSteps = ["connect", "defer-close", "get"] := by decide

end GV.ConnCache
