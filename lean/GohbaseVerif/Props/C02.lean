import GohbaseVerif.Lemmas.Conn
/-!
# C02 — a response is delivered to the call whose request carried its call id

Model: `Model/Conn.lean`. `wroteAs` logs, for every registration (`registerRPC` in `send`), the
pair (call, wire id); `Dlv.src` records the wire id of the response frame a result was derived
from. (The byte-level part of C02 — the id written into the request header is the registered one,
the id read from the response header is the one looked up — is outside this model.)
-/
namespace GV.Conn

/-- A result derived from the response frame with wire id `id` reaches only a call whose request
was registered (and written) under that id. -/
theorem delivery_correlates {q : Nat} {s : St} (h : Reachable q s) :
    ∀ d ∈ s.delivered, ∀ id, d.src = some id → (d.call, id) ∈ s.wroteAs :=
  (gr_reachable h).go.dlvWrote

example : ∃ s, run (init 2) [.queueDirect 7, .queueBatched 8, .queueBatched 9, .queueBatched 10,
      .write (.direct 7) true .ok, .arm (.direct 7) .ok, .write .writer true .ok, .arm .writer .ok,
      .write .writer true .ok, .arm .writer .ok,
      .read 3 (.perCall [(9, .ok), (10, .nsre)]), .read 1 .result] = some s ∧
    s.delivered = [⟨9, .ok, some 3⟩, ⟨10, .nsre, some 3⟩, ⟨7, .ok, some 1⟩] ∧
    s.wroteAs = [(7, 1), (8, 2), (9, 3), (10, 3)] ∧ s.sent = [(2, .multi [8])] := by
  refine ⟨_, rfl, ?_⟩
  decide

/-- Each call is registered under at most one wire id, and at most once. -/
theorem wire_id_per_call {q : Nat} {s : St} (h : Reachable q s) :
    (∀ c, (s.wroteAs.map (·.1)).count c ≤ 1) ∧
    (∀ c i j, (c, i) ∈ s.wroteAs → (c, j) ∈ s.wroteAs → i = j) := by
  have g := (gr_reachable h).go
  have h1 : ∀ c, (s.wroteAs.map (·.1)).count c ≤ 1 := fun c => by
    have := g.wroteOnce c
    have := List.nodup_iff_count.1 g.handedNodup c
    simp only [written] at *; omega
  refine ⟨h1, fun c i j hi hj => ?_⟩
  by_cases e : i = j
  · exact e
  · have := two_entries _ c i j hi hj e
    have := h1 c; omega

/-- Two registered items never share a wire id; a registered item is exactly the set of calls
written under its id; the item in the reader's hand was written under the id of its frame; every
id ever used is at most the counter. -/
theorem wire_ids_unique {q : Nat} {s : St} (h : Reachable q s) :
    (s.sent.map (·.1)).Nodup ∧
    (∀ p ∈ s.sent, ∀ c, (c, p.1) ∈ s.wroteAs ↔ c ∈ p.2.calls) ∧
    (∀ id it f, s.reader.held = some (id, it, f) → ∀ c ∈ it.calls, (c, id) ∈ s.wroteAs) ∧
    (∀ p ∈ s.sent, p.1 ≤ s.nextId) ∧ (∀ e ∈ s.wroteAs, e.2 ≤ s.nextId) := by
  have g := gr_reachable h
  exact ⟨g.go.idsNodup, g.go.sentWrote, fun id it f hh => (g.held id it f hh).2, g.go.idsLe,
    g.go.wroteLe⟩

/-- Ids are allocated strictly increasing: an item registered by a step gets an id above every id
used before (so it can never collide with an earlier item, registered or already answered). -/
theorem fresh_wire_id {q : Nat} {s s' : St} {a : Act} (h : Reachable q s)
    (hs : step s a = some s') :
    ∀ p ∈ s'.sent, p ∈ s.sent ∨ ((∀ e ∈ s.wroteAs, e.2 < p.1) ∧ ∀ p' ∈ s.sent, p'.1 < p.1) := by
  intro p hp
  have g := (gr_reachable h).go
  rcases (ext_step hs).sentNew p hp with h1 | h1
  · exact Or.inl h1
  · exact Or.inr ⟨fun e he => Nat.lt_of_le_of_lt (g.wroteLe e he) h1,
      fun p' hp' => Nat.lt_of_le_of_lt (g.idsLe p' hp') h1⟩

/-- (an unsendable call consumes id 3 without registering anything) -/
example : ∃ s, run (init 2) [.queueDirect 7, .queueBatched 8, .queueBatched 9, .queueUnsendable 6,
      .queueDirect 5] = some s ∧
    s.sent = [(1, .single 7), (2, .multi [8]), (4, .single 5)] ∧
    s.wroteAs = [(7, 1), (8, 2), (5, 4)] ∧ s.nextId = 4 ∧ s.delivered = [⟨6, .fatal, none⟩] := by
  refine ⟨_, rfl, ?_⟩
  decide

end GV.Conn
