import GohbaseVerif.Gen.Exits
import GohbaseVerif.Lemmas.Avail
import GohbaseVerif.Gen.Selects
import GohbaseVerif.Gen.RetryLoop
/-!
# C09 — Concurrent failures never crash the client or strand a waiting request

Model: `Model/Avail.lean` (what it covers and its two over-approximations are stated there).
Invariant: `Lemmas/Avail.lean` (`Good`, preserved by every action).  The tie to the source is
`Gen.Selects.goStmts` (regenerated): which `go` statements start establishers and under which
guard.
-/
namespace GV.Avail
open GV.Gen.Selects

/-! ## Where establishers are started (from the source) -/

/-- Every `go c.reestablishRegion(x)` in the source sits directly under `if x.MarkUnavailable()`:
only the goroutine that created the channel starts the establisher (model action `mark`). -/
theorem reestablish_always_guarded :
    ∀ g ∈ goStmts, g.call = "c.reestablishRegion" →
      (g.guard = "reg.MarkUnavailable()" ∨ g.guard = "downreg.MarkUnavailable()") := by decide

/-- the guards name the same variable the establisher is started for (the extractor gives the
condition text; both spellings occur) and there are exactly five such statements -/
theorem reestablish_sites :
    (goStmts.filter (·.call = "c.reestablishRegion")).map (fun g => (g.fn, g.guard)) =
      [("client.clientDown", "reg.MarkUnavailable()"),
       ("client.clientDown", "downreg.MarkUnavailable()"),
       ("client.getRegionAndClientForRPC", "reg.MarkUnavailable()"),
       ("client.handleResultError", "reg.MarkUnavailable()"),
       ("client.handleResultError", "reg.MarkUnavailable()")] := by decide

/-- The only unguarded starts of an establisher are the two `go c.establishRegion(reg, addr)` of
`findRegion` / `findAllRegions`, which act on the fresh object they have just marked unavailable
(model action `findRegion`); nothing else in the client package starts one. -/
theorem establish_unguarded_only_fresh :
    (goStmts.filter (fun g => g.call = "c.establishRegion" || g.call = "c.reestablishRegion")).filter
        (·.guard = "") =
      [⟨"gohbase", "client.findAllRegions", "c.establishRegion", ""⟩,
       ⟨"gohbase", "client.findRegion", "c.establishRegion", ""⟩] := by decide

/-- The establisher's back-off sleep watches the *region's* context (so it ends early exactly when
the region is dead — model: `estSleep … err` needs `dead`), and `reestablishRegion` looks at
`c.done` once, without blocking, before anything else (model: `estStart`). -/
theorem establisher_waits_in_source :
    GV.Gen.RetryLoop.establishRegion_sleepCtx = ["reg.Context()"] ∧
    (selects.filter (·.fn = "client.reestablishRegion")).map (·.cases) = [["default", "recv:c.done"]] := by
  decide

example : (goStmts.filter (·.call = "c.reestablishRegion")).length = 5 := by decide
/-- negative: an unguarded `go c.reestablishRegion` would be rejected -/
example : ¬ (∀ g ∈ (⟨"gohbase", "client.x", "c.reestablishRegion", ""⟩ :: goStmts),
    g.call = "c.reestablishRegion" →
      (g.guard = "reg.MarkUnavailable()" ∨ g.guard = "downreg.MarkUnavailable()")) := by decide

/-! ## Safety -/

/-- No reachable state has taken the `close(nil)` transition: `MarkAvailable` is never called on
an available region, under every interleaving of requesters, handlers, `clientDown`, `Close`
and establishers. -/
theorem mark_available_never_faults {s : State} (h : Reachable s) : s.fault = false :=
  (good_of_reachable h).nofault

/-- the same, as a statement about the next step: a release is only ever attempted on an
unavailable region -/
theorem release_finds_channel {s : State} (h : Reachable s) (r : Nat)
    (hp : PC.release ∈ (s.regs r).ests) : (s.regs r).avail ≠ none := by
  intro hn
  rw [(good_of_reachable h).regs r |>.held hn] at hp
  cases hp

/-- a full outage and repair of the meta region -/
def demoRepair : List Action :=
  [.mark 0, .estStart 0, .estSleep 0 true false, .estLookup 0 .same, .estDial 0 (.ok 7), .estRelease 0]

example : (run init demoRepair).map (fun s => (s.fault, (s.regs 0).avail, (s.regs 0).client, s.closes))
    = some (false, none, some 7, [(0, 0)]) := by decide

/-- negative (the fault is real in the model): in a state with two parties responsible for one
object — which the invariant excludes — the second release is `close(nil)`. -/
example :
    let bad : State := { regs := fun _ => { used := true, published := true, avail := some 0, gen := 1,
                                            ests := [.release, .release] } }
    (run bad [.estRelease 0, .estRelease 0]).map (·.fault) = some true := by decide

/-- Every region object that is unavailable has exactly one responsible establisher, or is a
fresh object that was never published, or the client has been closed (marked by `closeAll`, or its
establisher left through a `done` / `ErrClientClosed` exit).  Conversely an establisher is only
ever responsible for an unavailable object, and never two for one object. -/
theorem token_invariant {s : State} (h : Reachable s) (r : Nat) :
    ((s.regs r).avail ≠ none →
        (s.regs r).ests.length = 1 ∨ (s.regs r).published = false ∨ s.closed = true) ∧
    (s.regs r).ests.length ≤ 1 ∧
    ((s.regs r).ests ≠ [] → (s.regs r).avail ≠ none) := by
  have hg := (good_of_reachable h).regs r
  exact ⟨hg.tok, hg.le1, fun hne hn => hne (hg.held hn)⟩

/-- non-vacuity: all three alternatives occur -/
example : (run init [.mark 0]).map (fun s => ((s.regs 0).avail, (s.regs 0).ests)) =
    some (some 0, [.spawned]) := by decide
example : (run init [.findRegion 1 false]).map
    (fun s => ((s.regs 1).avail, (s.regs 1).ests, (s.regs 1).published)) = some (some 0, [], false) := by
  decide
example : (run init [.close, .closeAllMark 0]).map
    (fun s => ((s.regs 0).avail, (s.regs 0).ests, s.closed)) = some (some 0, [], true) := by decide

/-- Each channel generation of each region object is closed exactly once, except the one that is
open now (not yet closed); nothing is closed that was not created. -/
theorem released_exactly_once_per_outage {s : State} (h : Reachable s) (r g : Nat) :
    s.closes.count (r, g) =
      if g < (s.regs r).gen ∧ (s.regs r).avail ≠ some g then 1 else 0 :=
  (good_of_reachable h).regs r |>.log g

/-- two outages of the same region: generations 0 and 1 each closed once -/
example : (run init (demoRepair ++ demoRepair)).map (fun s => (s.closes, (s.regs 0).gen)) =
    some ([(0, 1), (0, 0)], 2) := by decide

/-! ## Every exit of the establisher -/

/-- Whenever a step makes an establisher leave a region object (any `return` of
`establishRegion` / `reestablishRegion`), either that same step closed the region's open channel
(`MarkAvailable`: the object is available afterwards and the closure is logged) or the client
had been closed (`<-c.done` in `reestablishRegion`, `ErrClientClosed` from the lookup, nil from
`clients.put`). -/
theorem establisher_releases_on_every_exit {s s' : State} {a : Action} (hr : Reachable s)
    (h : step s a = some s') (i : Nat)
    (hlt : (s'.regs i).ests.length < (s.regs i).ests.length) :
    (∃ g, (s.regs i).avail = some g ∧ (s'.regs i).avail = none ∧ s'.closes = (i, g) :: s.closes) ∨
      s.closed = true := by
  have hg := good_of_reachable hr
  cases a with
  | close => simp only [step] at h; injection h with h; subst h; exact absurd hlt (Nat.lt_irrefl _)
  | closeAllMark r =>
    simp only [step] at h
    split at h
    · rename_i hc; exact Or.inr hc.1
    · cases h
  | mark r =>
    simp only [step] at h
    split at h
    · injection h with h; subst h
      have := (upd_ests_lt hlt).2
      have := markAndSpawn_len (s.regs r) false
      omega
    · cases h
  | setClientNil r =>
    simp only [step] at h
    split at h
    · injection h with h; subst h
      have := (upd_ests_lt hlt).2
      simp at this
    · cases h
  | markDead r =>
    simp only [step] at h
    split at h
    · injection h with h; subst h
      have := (upd_ests_lt hlt).2
      simp at this
    · cases h
  | findRegion n replaced =>
    simp only [step] at h
    split at h
    · cases h
    · rename_i hu
      injection h with h; subst h
      obtain ⟨hi, hl⟩ := upd_ests_lt hlt
      have hp := (hg.regs n).pristine (by simpa using hu)
      rw [(hg.regs n).held hp.1] at hl
      simp at hl
  | estStart r =>
    simp only [step] at h
    split at h
    · rename_i hp
      split at h
      · rename_i hc; exact Or.inr hc
      · injection h with h; subst h
        have := (upd_ests_lt hlt).2
        rw [movePC_len hp] at this; omega
    · cases h
  | estSleep r fromL err =>
    simp only [step] at h
    split at h
    · rename_i hp
      split at h
      · split at h
        · injection h with h; subst h
          have := (upd_ests_lt hlt).2
          rw [movePC_len hp] at this; omega
        · cases h
      · injection h with h; subst h
        have := (upd_ests_lt hlt).2
        rw [movePC_len hp] at this; omega
    · cases h
  | estLookup r res =>
    simp only [step] at h
    split at h
    · rename_i hp
      have hdead : ¬ ((lookupDead s r).regs i).ests.length < (s.regs i).ests.length := by
        intro hl
        have := (upd_ests_lt hl).2
        rw [movePC_len hp] at this; omega
      cases res with
      | tableNotFound =>
        simp only [stepLookup] at h; injection h with h; subst h
        have := (upd_ests_lt hlt).2
        rw [movePC_len (by exact hp)] at this
        simp at this
      | ctxErr =>
        simp only [stepLookup] at h
        split at h
        · injection h with h; subst h; exact absurd hlt hdead
        · cases h
      | clientClosed =>
        simp only [stepLookup] at h
        split at h
        · injection h with h; subst h; exact absurd hlt hdead
        · split at h
          · rename_i hc; exact Or.inr hc
          · cases h
      | same =>
        simp only [stepLookup] at h
        split at h
        · injection h with h; subst h; exact absurd hlt hdead
        · injection h with h; subst h
          have := (upd_ests_lt hlt).2
          rw [movePC_len hp] at this; omega
      | newNotReplaced n =>
        simp only [stepLookup] at h
        split at h
        · injection h with h; subst h; exact absurd hlt hdead
        · split at h
          · cases h
          · rename_i hn
            injection h with h; subst h
            have hnr : n ≠ r := fun h' => hn (Or.inr h')
            have hnu : (s.regs n).used = false := by
              cases hu : (s.regs n).used
              · rfl
              · exact absurd (Or.inl hu) hn
            have hne : (s.regs n).ests = [] := (hg.regs n).held ((hg.regs n).pristine hnu).1
            exfalso
            dsimp only at hlt
            by_cases hi : i = r
            · subst hi
              simp only [upd_regs_self] at hlt
              rw [upd_regs_other _ _ _ (Ne.symm hnr), movePC_len hp] at hlt; omega
            · rw [upd_regs_other _ _ _ hi] at hlt
              by_cases hin : i = n
              · subst hin; simp [hne] at hlt
              · rw [upd_regs_other _ _ _ hin] at hlt; omega
      | newReplaced n =>
        simp only [stepLookup] at h
        split at h
        · injection h with h; subst h; exact absurd hlt hdead
        · split at h
          · cases h
          · rename_i hn
            injection h with h; subst h
            have hnr : n ≠ r := fun h' => hn (Or.inr h')
            have hnu : (s.regs n).used = false := by
              cases hu : (s.regs n).used
              · rfl
              · exact absurd (Or.inl hu) hn
            have hne : (s.regs n).ests = [] := (hg.regs n).held ((hg.regs n).pristine hnu).1
            exfalso
            skip
            by_cases hi : i = r
            · subst hi
              simp only [upd_regs_self] at hlt
              rw [upd_regs_other _ _ _ (Ne.symm hnr), movePC_len hp] at hlt; omega
            · rw [upd_regs_other _ _ _ hi] at hlt
              by_cases hin : i = n
              · subst hin; simp [hne] at hlt
              · rw [upd_regs_other _ _ _ hin] at hlt; omega
    · cases h
  | estDial r res =>
    simp only [step] at h
    split at h
    · rename_i hp
      cases res with
      | ok c =>
        simp only [stepDial] at h; injection h with h; subst h
        have := (upd_ests_lt hlt).2
        rw [movePC_len (by exact hp)] at this; simp at this
      | notServing =>
        simp only [stepDial] at h; injection h with h; subst h
        have := (upd_ests_lt hlt).2
        rw [movePC_len hp] at this; omega
      | serverError =>
        simp only [stepDial] at h; injection h with h; subst h
        have h1 := (upd_ests_lt hlt).2
        have hx := hg.regs r
        have hav : (s.regs r).avail ≠ none := fun hn => by rw [hx.held hn] at hp; cases hp
        have hms : markAndSpawn (s.regs r) true = s.regs r := by
          unfold markAndSpawn
          split
          · rename_i hn; exact absurd hn hav
          · rfl
        rw [hms, movePC_len hp] at h1; omega
      | canceled =>
        simp only [stepDial] at h; injection h with h; subst h
        have := (upd_ests_lt hlt).2
        rw [movePC_len hp] at this; omega
      | cacheClosed =>
        simp only [stepDial] at h
        split at h
        · rename_i hc; exact Or.inr hc
        · cases h
    · cases h
  | estRelease r =>
    simp only [step] at h
    split at h
    · rename_i hp
      injection h with h; subst h
      left
      have hx := hg.regs r
      have hav : (s.regs r).avail ≠ none := fun hn => by rw [hx.held hn] at hp; cases hp
      cases hgv : (s.regs r).avail with
      | none => exact absurd hgv hav
      | some g =>
        have hm : markAvail (upd s r fun x => dropPC x .release) r =
            { upd (upd s r fun x => dropPC x .release) r (fun x => { x with avail := none }) with
              closes := (r, g) :: s.closes } := by
          simp [markAvail, dropPC, hgv]
        rw [hm] at hlt ⊢
        by_cases hi : i = r
        · subst hi
          exact ⟨g, hgv, by simp, rfl⟩
        · exfalso
          dsimp only at hlt
          rw [upd_regs_other _ _ _ hi, upd_regs_other _ _ _ hi] at hlt; omega
    · cases h

/-- non-vacuity: an exit through release, and the exits allowed only after `Close` -/
example : (run init [.mark 0, .close, .estStart 0]).map
    (fun s => ((s.regs 0).ests, (s.regs 0).avail, s.closed)) = some ([], some 0, true) := by decide
example : (run init [.mark 0, .estStart 0, .estSleep 0 true false, .close, .estLookup 0 .clientClosed]).map
    (fun s => ((s.regs 0).ests, (s.regs 0).avail)) = some ([], some 0) := by decide
/-- the exit added by fix a1d563d: `clients.put` refuses after `closeAll` -/
example : (run init [.findRegion 1 true, .estSleep 1 false false, .close, .closeAllMark 1, .estDial 1 .cacheClosed]).map
    (fun s => ((s.regs 1).ests, (s.regs 1).avail)) = some ([], some 0) := by decide
example : run init [.findRegion 1 true, .estSleep 1 false false, .estDial 1 .cacheClosed] = none := by decide
/-- negative: before `Close` the `ErrClientClosed` exit is not enabled -/
example : run init [.mark 0, .estStart 0, .estSleep 0 true false, .estLookup 0 .clientClosed] = none := by
  decide

/-- An establisher can always take its next step (it never waits for another goroutine of the
client; its waits are the back-off sleep and network answers, which end). -/
theorem establisher_never_stuck (s : State) (r : Nat) (p : PC) (hp : p ∈ (s.regs r).ests) :
    ∃ a s', step s a = some s' := by
  cases p with
  | spawned =>
    refine ⟨.estStart r, ?_⟩
    by_cases hc : s.closed <;> simp [step, hp, hc]
  | sleepL => refine ⟨.estSleep r true false, ?_⟩; simp [step, sleepPC, hp]
  | sleepD => refine ⟨.estSleep r false false, ?_⟩; simp [step, sleepPC, hp]
  | lookup => refine ⟨.estLookup r .tableNotFound, ?_⟩; simp [step, hp, stepLookup]
  | haveAddr => refine ⟨.estDial r .canceled, ?_⟩; simp [step, hp, stepDial]
  | release => refine ⟨.estRelease r, ?_⟩; simp [step, hp]

/-- When the client is not closed and no establisher is running, every published region object
is available: no waiter is left behind a channel nobody will close. -/
theorem quiescent_all_available {s : State} (h : Reachable s) (hc : s.closed = false)
    (hq : ∀ r, (s.regs r).ests = []) (r : Nat) (hp : (s.regs r).published = true) :
    (s.regs r).avail = none := by
  have hg := (good_of_reachable h).regs r
  cases hav : (s.regs r).avail with
  | none => rfl
  | some g =>
    have := hg.tok (by rw [hav]; intro h'; cases h')
    rw [hq r, hp, hc] at this
    simp at this

/-- non-vacuity: a quiescent open state after a split was discovered (object 0 replaced by 1) -/
def demoSplit : List Action :=
  [.mark 0, .estStart 0, .estSleep 0 true false, .estLookup 0 (.newReplaced 1), .markDead 0,
   .setClientNil 0, .estRelease 0, .estDial 1 (.ok 3), .estRelease 1]
example : (run init demoSplit).map (fun s => (s.closed, (s.regs 0).ests, (s.regs 1).ests))
    = some (false, [], []) := by decide
example : (run init demoSplit).map (fun s => ((s.regs 0).avail, (s.regs 1).avail, (s.regs 1).client))
    = some (none, none, some 3) := by decide
/-- negative: after `Close` a region may stay unavailable with nobody responsible (by design:
waiters are released through `c.done` instead, C19) -/
example : (run init [.close, .closeAllMark 0]).map (fun s => ((s.regs 0).avail, (s.regs 0).ests)) =
    some (some 0, []) := by decide

/-! ## The waiter re-checks after waking up (`getRegionAndClientForRPC`) -/

/-- A pass never hands out a nil client: what it returns is the client it read last. -/
theorem waiter_never_returns_nil (o : Obs) (c : Nat) (b : Bool) (h : pass o = (.ret c, b)) :
    o.client0 = some c ∨ (o.client0 = none ∧ o.dead = false ∧ o.client1 = some c) := by
  unfold pass at h
  split at h
  · cases h
  · split at h
    · cases h
    · split at h
      · rename_i c0 hc0; injection h with h1 _; injection h1 with h1; left; rw [hc0, h1]
      · rename_i hc0
        simp only at h
        split at h
        · cases h
        · split at h
          · cases h
          · split at h
            · cases h
            · rename_i hd
              split at h
              · rename_i c1 hc1; injection h with h1 _; injection h1 with h1
                right; exact ⟨hc0, by simpa using hd, by rw [hc1, h1]⟩
              · cases h

/-- Full statement: "after a wake-up, a dead region or a nil client leads to re-resolution".
Proved here: after the wake-up from the second wait (the path taken whenever the client read at
line 152 was nil), a dead region or a still-nil client always leads to re-resolution; together
with `waiter_never_returns_nil` the nil-client half holds in full.
EXCLUDED (`_partial`): a region that is already dead when the client read at line 152 is still
non-nil — the first path does not look at `reg.Context()`; witness below. -/
theorem waiter_rechecks_partial (o : Obs) (h0 : o.client0 = none)
    (hw0 : ¬ (o.chan0 = true ∧ o.wake0 ≠ .avail)) (hw1 : ¬ (o.chan1 = true ∧ o.wake1 ≠ .avail))
    (hbad : o.dead = true ∨ o.client1 = none) :
    (pass o).1 = .retry := by
  unfold pass
  have a0 : ¬ (o.chan0 = true ∧ o.wake0 = .ctx) := fun h => hw0 ⟨h.1, by rw [h.2]; decide⟩
  have b0 : ¬ (o.chan0 = true ∧ o.wake0 = .done) := fun h => hw0 ⟨h.1, by rw [h.2]; decide⟩
  have a1 : ¬ (o.chan1 = true ∧ o.wake1 = .ctx) := fun h => hw1 ⟨h.1, by rw [h.2]; decide⟩
  have b1 : ¬ (o.chan1 = true ∧ o.wake1 = .done) := fun h => hw1 ⟨h.1, by rw [h.2]; decide⟩
  rw [if_neg a0, if_neg b0, h0]
  simp only
  rw [if_neg a1, if_neg b1]
  rcases hbad with hd | hc
  · rw [if_pos hd]
  · split
    · rfl
    · rw [hc]

/-- the requester starts an establisher exactly when its `MarkUnavailable` created the channel -/
theorem waiter_spawns_iff_created (o : Obs) (h0 : o.client0 = none)
    (hw0 : ¬ (o.chan0 = true ∧ o.wake0 ≠ .avail)) : (pass o).2 = o.created := by
  unfold pass
  have a0 : ¬ (o.chan0 = true ∧ o.wake0 = .ctx) := fun h => hw0 ⟨h.1, by rw [h.2]; decide⟩
  have b0 : ¬ (o.chan0 = true ∧ o.wake0 = .done) := fun h => hw0 ⟨h.1, by rw [h.2]; decide⟩
  rw [if_neg a0, if_neg b0, h0]
  simp only
  split
  · rfl
  · split
    · rfl
    · split
      · rfl
      · split <;> rfl

example : pass ⟨true, .avail, none, false, true, .avail, true, some 4⟩ = (.retry, false) := by decide
example : pass ⟨false, .avail, none, true, true, .avail, false, some 4⟩ = (.ret 4, true) := by decide

/- Full statement "after a wake-up a dead region leads to re-resolution" does NOT hold on the
first path: line 152 reads the client right after the first wait and, if it is non-nil, uses the
region without looking at `reg.Context()`.  (`regions.put` marks an overlapped region dead before
`clients.del` clears its client, so the window exists.)  The call is then sent for a region that
was replaced; the server answers NotServingRegion and `handleResultError` takes over — no crash
and no stranded waiter, hence recorded here as the exclusion of `waiter_rechecks_partial`, not a defect. -/
/-- the excluded case: region dead, client still set when read at line 152 → used -/
example : pass ⟨true, .avail, some 4, false, false, .avail, true, none⟩ = (.ret 4, false) := by decide

end GV.Avail

namespace GV.Avail
open GV.Gen

/-- Regenerated from rpc.go: every `return` of `establishRegion` is preceded, in its own block, by a
`MarkAvailable` call — except exactly the test-override return (0) and the two client-closed
returns (4: the lookup reported ErrClientClosed; 6: the connection cache refused the client).
This is the source-level counterpart of `establisher_releases_on_every_exit`. -/
theorem establish_exits_release_in_source :
    Exits.shapeOk = true ∧
    ((Exits.exits.filter (fun e => e.fn == "establishRegion" &&
        !(e.calls.any (fun c => c == "reg.MarkAvailable" || c == "originalReg.MarkAvailable")))).map (·.ord)) = [0, 4, 6] ∧
    (Exits.exits.filter (fun e => e.fn == "establishRegion")).length = 10 := by decide


/-- Regenerated from rpc.go: when the re-lookup inside `establishRegion` comes back with *another*
region (`reg` is rebound, `originalReg` keeps the region whose waiters are parked), the original
region is released on both outcomes of `regions.put`: exactly the exits 2, 3 (region gone / dead
while looking up) and 5 (the looked-up region is already cached: "put refused") call
`originalReg.MarkAvailable`, and between `c.regions.put(reg)` and the creation of the connection
there are two such calls — the refused-put return and the replaced-and-continue path. Dropping
either leaves the waiters of a merged/split-away region parked for ever (`merge-ordered`
scenario of the harness; `LookupRes.newNotReplaced` / `newReplaced` in the model both move the original region to its `release` step). -/
theorem original_region_released_on_replacement_in_source :
    ((Exits.exits.filter (fun e => e.fn == "establishRegion" &&
        e.calls.contains "originalReg.MarkAvailable")).map (·.ord)) = [2, 3, 5] ∧
    (((Exits.publishSites.filter (·.1 == "establishRegion")).map (fun p =>
        (((p.2.dropWhile (· != "c.regions.put(reg)")).takeWhile (· != "c.newRegionClientFn")).filter
          (· == "originalReg.MarkAvailable")).length)) = [2]) := by decide

/-- Regenerated from rpc.go: the last statement of `establishRegion`'s retry loop is `addr = ""`, so
every iteration that did not return — failed dial, probe refused (NotServingRegion or retry-later),
connection lost — is followed by a fresh lookup (`stepDial`: `.notServing` and `.serverError` lead
to `sleepL`, the loop top *with* lookup). Keeping the address after a refused probe would probe
the old server for ever while the region has opened elsewhere (`probe-refused-then-moved`). -/
theorem establish_loop_looks_up_again_in_source : Exits.establishLoopEndsWithAddrReset = true := by decide

/-- In a list of calls in source order: every `c.regions.put(reg)` has a `reg.MarkUnavailable`
before it with no `reg.MarkAvailable` in between. -/
def markedBeforePut : Bool → List String → Bool
  | _, [] => true
  | marked, c :: rest =>
    if c == "reg.MarkUnavailable" then markedBeforePut true rest
    else if c == "reg.MarkAvailable" then markedBeforePut false rest
    else if c == "c.regions.put(reg)" then marked && markedBeforePut marked rest
    else markedBeforePut marked rest

/-- Regenerated from rpc.go: the three functions that publish a freshly parsed region object
(`findRegion`, `findAllRegions`, `establishRegion`) mark it unavailable *before* `regions.put`
makes it reachable.  This is what lets the model treat "create, mark, publish, start the
establisher" as one step (`Action.findRegion`, `LookupRes.newReplaced`): while the object is
private nobody else's `MarkUnavailable` can return true for it, so the goroutine started afterwards
is the only establisher (`token_invariant`).  Marking after publishing would allow a second
establisher, whose `MarkAvailable` is the `close(nil)` excluded by `mark_available_never_faults`. -/
theorem published_regions_are_marked_first_in_source :
    Exits.publishSites.map (·.1) = ["findRegion", "findAllRegions", "establishRegion"] ∧
    (∀ p ∈ Exits.publishSites, p.2.contains "c.regions.put(reg)" = true ∧ markedBeforePut false p.2 = true) := by
  decide

example : markedBeforePut false ["c.lookupRegion", "c.regions.put(reg)", "reg.MarkUnavailable"] = false := by decide

/-- Regenerated from rpc.go: both waits of `getRegionAndClientForRPC` select on a channel value
`ch` read *once* from `reg.AvailabilityChan()` (and on the caller's context and `c.done`).  This is
what `Obs.chan0` / `Obs.chan1` model: one snapshot decides both whether to wait and on what.
Reading the availability twice (is it unavailable? — then wait on whatever the channel is *now*)
lets `MarkAvailable` slip in between: the second read returns nil and the waiter blocks for ever on
a nil channel although its region is available. -/
theorem waiter_waits_on_the_channel_it_checked_in_source :
    (GV.Gen.Selects.selects.filter (fun s => s.fn == "client.getRegionAndClientForRPC")).map (·.cases)
      = [["recv:c.done", "recv:ch", "recv:ctx.Done()"], ["recv:c.done", "recv:ch", "recv:ctx.Done()"]] := by
  decide

/-- Regenerated from client.go (`MarshalJSON`, what `gohbase.DebugState` renders): the connection
cache and the location cache are read in place, through pointers, so that `debugInfo` takes the
locks the writers take. A copy of a cache has a lock of its own and shares the map and the tree:
the rendering then races with every writer, and a lock copied while held is never released
(observed as `debug-state-with-writer-on-*` on a seeded change). -/
theorem debug_state_reads_the_caches_in_place_in_source :
    GV.Gen.Exits.debugStateCacheRefs
      = ["rcc := &c.clients", "krc := &c.regions", "rcc.debugInfo", "krc.debugInfo"] := by decide

end GV.Avail
