/-
Basic definitions shared by every model: byte strings, Go-style outcomes
(`fault` = Go panic / out-of-range slice / goroutine blocked forever), byte
comparison (`bytes.Compare`), big-endian integers and hex I/O for the driver.
Core Lean only (the driver links against this).
-/
namespace GV

abbrev Bytes := List UInt8

/-- Result of running a piece of Go code: a value, an `error`, or a crash. -/
inductive Outcome (α : Type) where
  | ok (a : α)
  | err (cls : String)
  | fault (why : String)
  deriving Repr, DecidableEq

namespace Outcome
def map {α β} (f : α → β) : Outcome α → Outcome β
  | ok a => ok (f a)
  | err c => err c
  | fault w => fault w

def bind {α β} (x : Outcome α) (f : α → Outcome β) : Outcome β :=
  match x with
  | ok a => f a
  | err c => err c
  | fault w => fault w

def isFault {α} : Outcome α → Bool
  | fault _ => true
  | _ => false

def isOk {α} : Outcome α → Bool
  | ok _ => true
  | _ => false

instance : Monad Outcome where
  pure := ok
  bind := bind
end Outcome

/-- `bytes.Compare`. -/
def bcmp : Bytes → Bytes → Ordering
  | [], [] => .eq
  | [], _ :: _ => .lt
  | _ :: _, [] => .gt
  | x :: xs, y :: ys => if x < y then .lt else if y < x then .gt else bcmp xs ys

def signOf (i : Int) : Ordering := if i < 0 then .lt else if 0 < i then .gt else .eq

def ordToInt : Ordering → Int
  | .lt => -1
  | .eq => 0
  | .gt => 1

/-! ### big-endian integers -/

def beNat : Bytes → Nat
  | [] => 0
  | b :: bs => b.toNat * 256 ^ bs.length + beNat bs

/-- `n`-byte big-endian encoding of `v mod 256^n` (Go's `PutUintN(uintN(v))`). -/
def toBE : Nat → Nat → Bytes
  | 0, _ => []
  | n + 1, v => UInt8.ofNat (v / 256 ^ n % 256) :: toBE n v

/-! ### hex I/O (driver line protocol). The empty string is written `-`. -/

def hexDigit (n : Nat) : Char :=
  if n < 10 then Char.ofNat (48 + n) else Char.ofNat (87 + n)

def toHex (b : Bytes) : String :=
  if b.isEmpty then "-" else
  String.ofList (b.flatMap fun x => [hexDigit (x.toNat / 16), hexDigit (x.toNat % 16)])

def hexVal (c : Char) : Option Nat :=
  if '0' ≤ c ∧ c ≤ '9' then some (c.toNat - 48)
  else if 'a' ≤ c ∧ c ≤ 'f' then some (c.toNat - 87)
  else if 'A' ≤ c ∧ c ≤ 'F' then some (c.toNat - 55)
  else none

def fromHexChars : List Char → Option Bytes
  | [] => some []
  | [_] => none
  | a :: b :: rest => do
    let x ← hexVal a
    let y ← hexVal b
    let r ← fromHexChars rest
    pure (UInt8.ofNat (x * 16 + y) :: r)

def fromHex (s : String) : Option Bytes :=
  if s = "-" then some [] else fromHexChars s.toList

def ordStr : Ordering → String
  | .lt => "lt"
  | .eq => "eq"
  | .gt => "gt"

def outcomeStr {α} (f : α → String) : Outcome α → String
  | .ok a => "ok:" ++ f a
  | .err c => "err:" ++ c
  | .fault _ => "fault"

end GV
