import Lean
/-!
`#audit_module M` lists every theorem declared in module `M` with the axioms it depends on
(the same computation as `#print axioms`). The runner parses the `THEOREM … AXIOMS …` lines.
-/
open Lean Elab Command

elab "#audit_module " m:ident : command => do
  let env ← getEnv
  let some idx := env.getModuleIdx? m.getId
    | throwError "module {m.getId} is not imported"
  let consts := env.header.moduleData[idx]!.constNames
  for c in consts do
    if c.isInternalDetail then continue
    match env.find? c with
    | some (.thmInfo _) =>
      let axs ← liftCoreM (collectAxioms c)
      let axs := axs.qsort Name.lt
      logInfo m!"THEOREM {c} AXIOMS {axs.toList}"
    | _ => pure ()
